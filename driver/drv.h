/* shared between pncdrv.c and shim.c */
#ifndef DRV_H
#define DRV_H
#include <stdio.h>
#include <mpi.h>

extern FILE *g_log;      /* per-rank event log */
extern int   g_line;     /* script line (= op id) being executed, 0 outside any op */
extern int   g_rank, g_nprocs;
void logf_(const char *fmt, ...) __attribute__((format(printf,1,2)));

/* shim configuration (set by script ops) */
struct shim_cfg {
    long fault_ord;      /* fail the data-transfer call with this per-rank ordinal (-1 = none) */
    int  fault_class;    /* MPI error class to return */
    long fault_fired;    /* how many injections fired */
    int  fault_sticky;   /* 1: fail every data-transfer call with ordinal >= fault_ord */
    int  short_write;    /* >0: POSIX write/pwrite calls of more than this many bytes to a burst-buffer log file transfer only half */
    long short_fired;
    unsigned delay_state;/* PRNG state for schedule perturbation, 0 = off */
    int  delay_max_us;
    int  log_p2p;        /* log point-to-point too */
};
extern struct shim_cfg shim;
extern long shim_io_ord;         /* ordinal of the next data-transfer call on this rank */
extern long shim_bal[4];         /* live library-created: 0 datatypes 1 comms 2 infos 3 files */
extern long shim_tot[4];         /* total created */
extern long shim_ncoll, shim_nio;
#endif
