#define _GNU_SOURCE
/* PMPI shim: observes every MPI call the *library* makes on behalf of an API call
 * (the driver itself uses PMPI_* directly), logs collectives / MPI-IO with the id of
 * the enclosing script op, injects faults and delays, and keeps a live balance of
 * library-created MPI objects. */
#include <stdlib.h>
#include <string.h>
#include <unistd.h>
#include "drv.h"

struct shim_cfg shim = { -1, MPI_ERR_IO, 0, 0, 0, 0, 0 };
long shim_io_ord = 0;
long shim_bal[4] = {0,0,0,0};
long shim_tot[4] = {0,0,0,0};
long shim_ncoll = 0, shim_nio = 0;

static void maybe_delay(void)
{
    if (shim.delay_state == 0 || shim.delay_max_us <= 0) return;
    /* xorshift32 */
    unsigned x = shim.delay_state;
    x ^= x << 13; x ^= x >> 17; x ^= x << 5;
    shim.delay_state = x ? x : 1;
    if ((x & 3) == 0) usleep(x % (unsigned)shim.delay_max_us);
}

#define COLL(name, ...) do { shim_ncoll++; logf_("M %d " name "\n", g_line, ##__VA_ARGS__); maybe_delay(); } while (0)

static const char *opname(MPI_Op op)
{
    if (op == MPI_MAX) return "MAX"; if (op == MPI_MIN) return "MIN"; if (op == MPI_SUM) return "SUM";
    if (op == MPI_LOR) return "LOR"; if (op == MPI_LAND) return "LAND"; if (op == MPI_BOR) return "BOR";
    return "OP";
}

/* ---------------- collectives ---------------- */
int MPI_Allreduce(const void *s, void *r, int count, MPI_Datatype dt, MPI_Op op, MPI_Comm comm)
{ COLL("ALLREDUCE n=%d op=%s", count, opname(op)); return PMPI_Allreduce(s, r, count, dt, op, comm); }
int MPI_Reduce(const void *s, void *r, int count, MPI_Datatype dt, MPI_Op op, int root, MPI_Comm comm)
{ COLL("REDUCE n=%d root=%d", count, root); return PMPI_Reduce(s, r, count, dt, op, root, comm); }
int MPI_Bcast(void *b, int count, MPI_Datatype dt, int root, MPI_Comm comm)
{ COLL("BCAST root=%d", root); return PMPI_Bcast(b, count, dt, root, comm); }
int MPI_Barrier(MPI_Comm comm)
{ COLL("BARRIER"); return PMPI_Barrier(comm); }
int MPI_Gather(const void *s, int sc, MPI_Datatype st, void *r, int rc, MPI_Datatype rt, int root, MPI_Comm comm)
{ COLL("GATHER root=%d", root); return PMPI_Gather(s, sc, st, r, rc, rt, root, comm); }
int MPI_Gatherv(const void *s, int sc, MPI_Datatype st, void *r, const int *rc, const int *displs, MPI_Datatype rt, int root, MPI_Comm comm)
{ COLL("GATHERV root=%d", root); return PMPI_Gatherv(s, sc, st, r, rc, displs, rt, root, comm); }
int MPI_Allgather(const void *s, int sc, MPI_Datatype st, void *r, int rc, MPI_Datatype rt, MPI_Comm comm)
{ COLL("ALLGATHER"); return PMPI_Allgather(s, sc, st, r, rc, rt, comm); }
int MPI_Allgatherv(const void *s, int sc, MPI_Datatype st, void *r, const int *rc, const int *displs, MPI_Datatype rt, MPI_Comm comm)
{ COLL("ALLGATHERV"); return PMPI_Allgatherv(s, sc, st, r, rc, displs, rt, comm); }
int MPI_Alltoall(const void *s, int sc, MPI_Datatype st, void *r, int rc, MPI_Datatype rt, MPI_Comm comm)
{ COLL("ALLTOALL"); return PMPI_Alltoall(s, sc, st, r, rc, rt, comm); }
int MPI_Scan(const void *s, void *r, int count, MPI_Datatype dt, MPI_Op op, MPI_Comm comm)
{ COLL("SCAN"); return PMPI_Scan(s, r, count, dt, op, comm); }
int MPI_Exscan(const void *s, void *r, int count, MPI_Datatype dt, MPI_Op op, MPI_Comm comm)
{ COLL("EXSCAN"); return PMPI_Exscan(s, r, count, dt, op, comm); }

/* ---------------- communicators ---------------- */
int MPI_Comm_dup(MPI_Comm comm, MPI_Comm *newcomm)
{ COLL("COMM_DUP"); int e = PMPI_Comm_dup(comm, newcomm); if (e == MPI_SUCCESS) { shim_bal[1]++; shim_tot[1]++; } return e; }
int MPI_Comm_split(MPI_Comm comm, int color, int key, MPI_Comm *newcomm)
{ COLL("COMM_SPLIT"); int e = PMPI_Comm_split(comm, color, key, newcomm);
  if (e == MPI_SUCCESS && *newcomm != MPI_COMM_NULL) { shim_bal[1]++; shim_tot[1]++; } return e; }
int MPI_Comm_split_type(MPI_Comm comm, int st, int key, MPI_Info info, MPI_Comm *newcomm)
{ COLL("COMM_SPLIT_TYPE"); int e = PMPI_Comm_split_type(comm, st, key, info, newcomm);
  if (e == MPI_SUCCESS && *newcomm != MPI_COMM_NULL) { shim_bal[1]++; shim_tot[1]++; } return e; }
int MPI_Comm_free(MPI_Comm *comm)
{ logf_("M %d COMM_FREE\n", g_line); shim_bal[1]--; return PMPI_Comm_free(comm); }

/* ---------------- point to point (intra-node aggregation) ---------------- */
int MPI_Send(const void *b, int c, MPI_Datatype dt, int dest, int tag, MPI_Comm comm)
{ if (shim.log_p2p) logf_("M %d SEND dest=%d\n", g_line, dest); maybe_delay(); return PMPI_Send(b, c, dt, dest, tag, comm); }
int MPI_Isend(const void *b, int c, MPI_Datatype dt, int dest, int tag, MPI_Comm comm, MPI_Request *r)
{ if (shim.log_p2p) logf_("M %d ISEND dest=%d\n", g_line, dest); maybe_delay(); return PMPI_Isend(b, c, dt, dest, tag, comm, r); }
int MPI_Irecv(void *b, int c, MPI_Datatype dt, int src, int tag, MPI_Comm comm, MPI_Request *r)
{ if (shim.log_p2p) logf_("M %d IRECV src=%d\n", g_line, src); return PMPI_Irecv(b, c, dt, src, tag, comm, r); }
int MPI_Recv(void *b, int c, MPI_Datatype dt, int src, int tag, MPI_Comm comm, MPI_Status *st)
{ if (shim.log_p2p) logf_("M %d RECV src=%d\n", g_line, src); return PMPI_Recv(b, c, dt, src, tag, comm, st); }
int MPI_Waitall(int n, MPI_Request *r, MPI_Status *st)
{ if (shim.log_p2p) logf_("M %d WAITALL n=%d\n", g_line, n); maybe_delay(); return PMPI_Waitall(n, r, st); }

/* ---------------- datatypes ---------------- */
#define TNEW(e, t) do { if ((e) == MPI_SUCCESS) { shim_bal[0]++; shim_tot[0]++; } } while (0)
int MPI_Type_contiguous(int c, MPI_Datatype o, MPI_Datatype *n)
{ int e = PMPI_Type_contiguous(c, o, n); TNEW(e, n); return e; }
int MPI_Type_vector(int c, int b, int s, MPI_Datatype o, MPI_Datatype *n)
{ int e = PMPI_Type_vector(c, b, s, o, n); TNEW(e, n); return e; }
int MPI_Type_create_hvector(int c, int b, MPI_Aint s, MPI_Datatype o, MPI_Datatype *n)
{ int e = PMPI_Type_create_hvector(c, b, s, o, n); TNEW(e, n); return e; }
int MPI_Type_indexed(int c, const int *b, const int *d, MPI_Datatype o, MPI_Datatype *n)
{ int e = PMPI_Type_indexed(c, b, d, o, n); TNEW(e, n); return e; }
int MPI_Type_create_hindexed(int c, const int *b, const MPI_Aint *d, MPI_Datatype o, MPI_Datatype *n)
{ int e = PMPI_Type_create_hindexed(c, b, d, o, n); TNEW(e, n); return e; }
int MPI_Type_create_indexed_block(int c, int b, const int *d, MPI_Datatype o, MPI_Datatype *n)
{ int e = PMPI_Type_create_indexed_block(c, b, d, o, n); TNEW(e, n); return e; }
int MPI_Type_create_hindexed_block(int c, int b, const MPI_Aint *d, MPI_Datatype o, MPI_Datatype *n)
{ int e = PMPI_Type_create_hindexed_block(c, b, d, o, n); TNEW(e, n); return e; }
int MPI_Type_create_struct(int c, const int *b, const MPI_Aint *d, const MPI_Datatype *t, MPI_Datatype *n)
{ int e = PMPI_Type_create_struct(c, b, d, t, n); TNEW(e, n); return e; }
int MPI_Type_create_subarray(int nd, const int *sz, const int *ssz, const int *st, int order, MPI_Datatype o, MPI_Datatype *n)
{ int e = PMPI_Type_create_subarray(nd, sz, ssz, st, order, o, n); TNEW(e, n); return e; }
int MPI_Type_create_resized(MPI_Datatype o, MPI_Aint lb, MPI_Aint ext, MPI_Datatype *n)
{ int e = PMPI_Type_create_resized(o, lb, ext, n); TNEW(e, n); return e; }
int MPI_Type_dup(MPI_Datatype o, MPI_Datatype *n)
{ int e = PMPI_Type_dup(o, n); TNEW(e, n); return e; }
/* MPI_Type_get_contents hands out new references to the constituent derived types; the caller has to free them */
int MPI_Type_get_contents(MPI_Datatype t, int mi, int ma, int md, int *ai, MPI_Aint *aa, MPI_Datatype *ad)
{
    int e = PMPI_Type_get_contents(t, mi, ma, md, ai, aa, ad);
    if (e == MPI_SUCCESS)
        for (int i = 0; i < md; i++) {
            int ni, na, nd, comb;
            if (PMPI_Type_get_envelope(ad[i], &ni, &na, &nd, &comb) == MPI_SUCCESS && comb != MPI_COMBINER_NAMED) { shim_bal[0]++; shim_tot[0]++; }
        }
    return e;
}
int MPI_Type_free(MPI_Datatype *t)
{ shim_bal[0]--; return PMPI_Type_free(t); }

/* ---------------- POSIX short writes ----------------
 * POSIX allows write()/pwrite() to transfer fewer bytes than asked without failing.  When switched on by the script
 * (op "shortwrite"), calls that the statically linked library makes on a burst-buffer log file (a path containing
 * "/bb/") transfer only half of the request; correct code loops over the rest. */
#include <dlfcn.h>
static int is_bb_log(int fd)
{
    char lk[64], path[4096];
    snprintf(lk, sizeof(lk), "/proc/self/fd/%d", fd);
    ssize_t n = readlink(lk, path, sizeof(path) - 1);
    if (n <= 0) return 0;
    path[n] = 0;
    return strstr(path, "/bb/") != NULL;
}
ssize_t write(int fd, const void *buf, size_t n)
{
    static ssize_t (*real)(int, const void *, size_t);
    if (!real) real = (ssize_t (*)(int, const void *, size_t))dlsym(RTLD_NEXT, "write");
    if (shim.short_write > 0 && n > (size_t)shim.short_write && is_bb_log(fd)) { n = n / 2; shim.short_fired++; }
    return real(fd, buf, n);
}
ssize_t pwrite(int fd, const void *buf, size_t n, off_t off)
{
    static ssize_t (*real)(int, const void *, size_t, off_t);
    if (!real) real = (ssize_t (*)(int, const void *, size_t, off_t))dlsym(RTLD_NEXT, "pwrite");
    if (shim.short_write > 0 && n > (size_t)shim.short_write && is_bb_log(fd)) { n = n / 2; shim.short_fired++; }
    return real(fd, buf, n, off);
}

/* ---------------- info ---------------- */
int MPI_Info_create(MPI_Info *i)
{ int e = PMPI_Info_create(i); if (e == MPI_SUCCESS) { shim_bal[2]++; shim_tot[2]++; } return e; }
int MPI_Info_dup(MPI_Info i, MPI_Info *n)
{ int e = PMPI_Info_dup(i, n); if (e == MPI_SUCCESS) { shim_bal[2]++; shim_tot[2]++; } return e; }
int MPI_Info_free(MPI_Info *i)
{ shim_bal[2]--; return PMPI_Info_free(i); }
int MPI_File_get_info(MPI_File fh, MPI_Info *i)
{ int e = PMPI_File_get_info(fh, i); if (e == MPI_SUCCESS) { shim_bal[2]++; shim_tot[2]++; } return e; }

/* ---------------- MPI-IO ---------------- */
int MPI_File_open(MPI_Comm comm, const char *fn, int amode, MPI_Info info, MPI_File *fh)
{
    int sz; PMPI_Comm_size(comm, &sz);
    COLL("FOPEN amode=%d csz=%d", amode, sz);
    int e = PMPI_File_open(comm, fn, amode, info, fh);
    if (e == MPI_SUCCESS) { shim_bal[3]++; shim_tot[3]++; }
    return e;
}
int MPI_File_close(MPI_File *fh)
{ COLL("FCLOSE"); shim_bal[3]--; return PMPI_File_close(fh); }
int MPI_File_delete(const char *fn, MPI_Info info)
{ logf_("M %d FDELETE\n", g_line); return PMPI_File_delete(fn, info); }
static void describe(MPI_Datatype t, int depth)
{
    int ni, na, nd, comb; if (depth > 6) return;
    PMPI_Type_get_envelope(t, &ni, &na, &nd, &comb);
    if (comb == MPI_COMBINER_NAMED) { int sz; PMPI_Type_size(t, &sz); fprintf(g_log, "N%d", sz); return; }
    int *I = malloc(sizeof(int) * (ni + 1)); MPI_Aint *A = malloc(sizeof(MPI_Aint) * (na + 1)); MPI_Datatype *D = malloc(sizeof(MPI_Datatype) * (nd + 1));
    PMPI_Type_get_contents(t, ni, na, nd, I, A, D);
    fprintf(g_log, "{c%d I=", comb); for (int i = 0; i < ni && i < 12; i++) fprintf(g_log, "%d,", I[i]);
    fprintf(g_log, " A="); for (int i = 0; i < na && i < 12; i++) fprintf(g_log, "%lld,", (long long)A[i]);
    fprintf(g_log, " D="); for (int i = 0; i < nd && i < 4; i++) { describe(D[i], depth + 1); fprintf(g_log, ";"); }
    fprintf(g_log, "}");
    for (int i = 0; i < nd; i++) { int a, b, c, cb; PMPI_Type_get_envelope(D[i], &a, &b, &c, &cb); if (cb != MPI_COMBINER_NAMED) PMPI_Type_free(&D[i]); }
    free(I); free(A); free(D);
}
int MPI_File_set_view(MPI_File fh, MPI_Offset disp, MPI_Datatype et, MPI_Datatype ft, const char *rep, MPI_Info info)
{
    COLL("SETVIEW disp=%lld", (long long)disp);
    if (getenv("VERIF_SHIM_TYPES")) { fprintf(g_log, "M %d VIEWTYPE ", g_line); describe(ft, 0); logf_("\n"); }
    int e = PMPI_File_set_view(fh, disp, et, ft, rep, info);
    if (e != MPI_SUCCESS) logf_("M %d SETVIEW_FAILED code=%d\n", g_line, e);
    return e;
}
int MPI_File_sync(MPI_File fh)
{ COLL("FSYNC"); return PMPI_File_sync(fh); }
int MPI_File_set_size(MPI_File fh, MPI_Offset sz)
{ COLL("FSETSIZE sz=%lld", (long long)sz); return PMPI_File_set_size(fh, sz); }

/* data transfer: every call gets a per-rank ordinal; one of them may be failed.
 * A failed collective still enters the underlying collective with a zero-length
 * request so that the injection itself can never block another rank. */
static int inject(const char *what)
{
    long ord = shim_io_ord++;
    shim_nio++;
    if (shim.fault_ord >= 0 && (ord == shim.fault_ord || (shim.fault_sticky && ord >= shim.fault_ord))) {
        shim.fault_fired++;
        logf_("M %d INJECTED %s ord=%ld class=%d\n", g_line, what, ord, shim.fault_class);
        return 1;
    }
    return 0;
}
#define IOLOG(name, coll, off, cnt) do { \
    if (coll) { shim_ncoll++; } \
    logf_("M %d " name " ord=%ld off=%lld cnt=%lld\n", g_line, shim_io_ord, (long long)(off), (long long)(cnt)); \
    maybe_delay(); } while (0)

static void zero_status(MPI_Status *st, MPI_Datatype dt)
{ if (st != MPI_STATUS_IGNORE) PMPI_Status_set_elements(st, dt, 0); }

int MPI_File_write_at_all(MPI_File fh, MPI_Offset off, const void *buf, int count, MPI_Datatype dt, MPI_Status *st)
{
    IOLOG("WCOLL_AT", 1, off, count);
    if (inject("WCOLL_AT")) { PMPI_File_write_at_all(fh, off, buf, 0, MPI_BYTE, st); zero_status(st, dt); return shim.fault_class; }
    return PMPI_File_write_at_all(fh, off, buf, count, dt, st);
}
int MPI_File_write_all(MPI_File fh, const void *buf, int count, MPI_Datatype dt, MPI_Status *st)
{
    IOLOG("WCOLL", 1, -1, count);
    if (inject("WCOLL")) { PMPI_File_write_all(fh, buf, 0, MPI_BYTE, st); zero_status(st, dt); return shim.fault_class; }
    return PMPI_File_write_all(fh, buf, count, dt, st);
}
int MPI_File_write_at(MPI_File fh, MPI_Offset off, const void *buf, int count, MPI_Datatype dt, MPI_Status *st)
{
    IOLOG("WIND_AT", 0, off, count);
    if (inject("WIND_AT")) { zero_status(st, dt); return shim.fault_class; }
    return PMPI_File_write_at(fh, off, buf, count, dt, st);
}
int MPI_File_write(MPI_File fh, const void *buf, int count, MPI_Datatype dt, MPI_Status *st)
{
    IOLOG("WIND", 0, -1, count);
    if (inject("WIND")) { zero_status(st, dt); return shim.fault_class; }
    return PMPI_File_write(fh, buf, count, dt, st);
}
int MPI_File_read_at_all(MPI_File fh, MPI_Offset off, void *buf, int count, MPI_Datatype dt, MPI_Status *st)
{
    IOLOG("RCOLL_AT", 1, off, count);
    if (inject("RCOLL_AT")) { PMPI_File_read_at_all(fh, off, buf, 0, MPI_BYTE, st); zero_status(st, dt); return shim.fault_class; }
    { MPI_Status own; MPI_Status *sp = (st == MPI_STATUS_IGNORE) ? &own : st; int e = PMPI_File_read_at_all(fh, off, buf, count, dt, sp); int got = -1; PMPI_Get_count(sp, MPI_BYTE, &got); logf_("M %d RGOT bytes=%d err=%d\n", g_line, got, e); return e; }
}
int MPI_File_read_all(MPI_File fh, void *buf, int count, MPI_Datatype dt, MPI_Status *st)
{
    IOLOG("RCOLL", 1, -1, count);
    if (inject("RCOLL")) { PMPI_File_read_all(fh, buf, 0, MPI_BYTE, st); zero_status(st, dt); return shim.fault_class; }
    { MPI_Status own; MPI_Status *sp = (st == MPI_STATUS_IGNORE) ? &own : st; int e = PMPI_File_read_all(fh, buf, count, dt, sp); int got = -1; PMPI_Get_count(sp, MPI_BYTE, &got); logf_("M %d RGOT bytes=%d err=%d\n", g_line, got, e); return e; }
}
int MPI_File_read_at(MPI_File fh, MPI_Offset off, void *buf, int count, MPI_Datatype dt, MPI_Status *st)
{
    IOLOG("RIND_AT", 0, off, count);
    if (inject("RIND_AT")) { zero_status(st, dt); return shim.fault_class; }
    { MPI_Status own; MPI_Status *sp = (st == MPI_STATUS_IGNORE) ? &own : st; int e = PMPI_File_read_at(fh, off, buf, count, dt, sp); int got = -1; PMPI_Get_count(sp, MPI_BYTE, &got); logf_("M %d RGOT bytes=%d err=%d\n", g_line, got, e); return e; }
}
int MPI_File_read(MPI_File fh, void *buf, int count, MPI_Datatype dt, MPI_Status *st)
{
    IOLOG("RIND", 0, -1, count);
    if (inject("RIND")) { zero_status(st, dt); return shim.fault_class; }
    { MPI_Status own; MPI_Status *sp = (st == MPI_STATUS_IGNORE) ? &own : st; int e = PMPI_File_read(fh, buf, count, dt, sp); int got = -1; PMPI_Get_count(sp, MPI_BYTE, &got); logf_("M %d RGOT bytes=%d err=%d\n", g_line, got, e); return e; }
}
