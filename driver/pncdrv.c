/* pncdrv -- script interpreter that drives the real PnetCDF C API and records,
 * per rank, a call event before and a return event after every call.
 *
 *   mpiexec -n N pncdrv <script> <outdir>
 *
 * Script: one op per line:   <ranks> <op> k=v k=v ...
 *   ranks: '*' or comma list.  The 1-based line number is the op id.
 * Log (<outdir>/log.<rank>):
 *   C <line> <op>                 call event (flushed before the call)
 *   M <line> <mpi event>          library-originated MPI call (from shim.c)
 *   R <line> <op> err=<e> k=v...  return event
 *   S <line> ...                  sweep records
 * A call that never returns leaves its C line open at the end of the log.
 */
#define _GNU_SOURCE
#include <stdio.h>
#include <stdlib.h>
#include <string.h>
#include <stdarg.h>
#include <stdint.h>
#include <unistd.h>
#include <errno.h>
#include <fcntl.h>
#include <sys/stat.h>
#include <mpi.h>
#include <pnetcdf.h>
#include "drv.h"
#include "calls.inc"

FILE *g_log; int g_line = 0, g_rank = 0, g_nprocs = 1;
static char *g_outdir;

void logf_(const char *fmt, ...)
{
    va_list ap; va_start(ap, fmt); vfprintf(g_log, fmt, ap); va_end(ap);
    fflush(g_log);
}
static void die(const char *fmt, ...)
{
    va_list ap; va_start(ap, fmt);
    fprintf(stderr, "pncdrv[%d] line %d: ", g_rank, g_line); vfprintf(stderr, fmt, ap); fprintf(stderr, "\n");
    va_end(ap);
    if (g_log) { logf_("X %d script-error\n", g_line); }
    PMPI_Abort(MPI_COMM_WORLD, 3);
    exit(3);
}

/* optional hooks in the library (guard PNETCDF_VERIF) */
extern long ncmpi_verif_hits[] __attribute__((weak));
extern int  ncmpi_verif_nhits __attribute__((weak));
extern const char *ncmpi_verif_hit_names[] __attribute__((weak));
extern int ncmpi_verif_walk(int ncid, int strict, char *msg, int len) __attribute__((weak));

/* ------------------------------------------------------------------ slots */
#define NF 1100
#define NT 64
#define NB 4096
#define NR 4096
#define NS 8
#define GUARD 64
static int      F[NF];
static MPI_Datatype T[NT];
struct buf { unsigned char *raw; size_t n; unsigned char *pristine; int isget; int scribbled; };
static struct buf B[NB];
static int      R[NR];
static struct { unsigned char *p; size_t n; } SNAP[NS];

/* ------------------------------------------------------------------ args */
#define MAXARG 64
static int    nargs; static char *akey[MAXARG], *aval[MAXARG];
static const char *arg(const char *k)
{
    for (int i = 0; i < nargs; i++) if (!strcmp(akey[i], k)) return aval[i];
    return NULL;
}
static const char *argreq(const char *k)
{ const char *v = arg(k); if (!v) die("missing arg %s", k); return v; }
static long long argi(const char *k, long long dflt)
{ const char *v = arg(k); if (!v || !strcmp(v, "-")) return dflt; return strtoll(v, NULL, 0); }
static long long argireq(const char *k)
{ const char *v = argreq(k); return strtoll(v, NULL, 0); }
static int hexval(int c) { return c <= '9' ? c - '0' : (c | 32) - 'a' + 10; }
/* decode "s:plain" or "h:hex"; returns malloc'd NUL-terminated; *len set */
static char *decstr(const char *v, size_t *len)
{
    if (!v) return NULL;
    if (v[0] == 's' && v[1] == ':') { size_t n = strlen(v + 2); char *r = malloc(n + 1); memcpy(r, v + 2, n + 1); if (len) *len = n; return r; }
    if (v[0] == 'h' && v[1] == ':') {
        size_t n = strlen(v + 2) / 2; char *r = malloc(n + 1);
        for (size_t i = 0; i < n; i++) r[i] = (char)(hexval(v[2 + 2*i]) * 16 + hexval(v[3 + 2*i]));
        r[n] = 0; if (len) *len = n; return r;
    }
    die("bad string %s", v); return NULL;
}
static char *argstr(const char *k) { return decstr(argreq(k), NULL); }
/* list of integers "a,b,c" ; "-" or absent => NULL */
static MPI_Offset *arglist(const char *k, int *n)
{
    const char *v = arg(k); if (n) *n = 0;
    if (!v || !strcmp(v, "-")) return NULL;
    int cnt = 1; for (const char *p = v; *p; p++) if (*p == ',') cnt++;
    if (!*v) cnt = 0;
    MPI_Offset *r = malloc(sizeof(MPI_Offset) * (cnt + 1));
    const char *p = v; int i = 0;
    while (*p && i < cnt) { char *e; r[i++] = strtoll(p, &e, 0); p = (*e == ',') ? e + 1 : e; }
    if (n) *n = i;
    return r;
}
static int *arglist_int(const char *k, int *n)
{
    int m; MPI_Offset *l = arglist(k, &m); if (n) *n = m; if (!l) return NULL;
    int *r = malloc(sizeof(int) * (m + 1)); for (int i = 0; i < m; i++) r[i] = (int)l[i]; free(l); return r;
}
static char *hexenc(const unsigned char *p, size_t n)
{
    static const char d[] = "0123456789abcdef";
    char *r = malloc(2 * n + 1);
    for (size_t i = 0; i < n; i++) { r[2*i] = d[p[i] >> 4]; r[2*i+1] = d[p[i] & 15]; }
    r[2*n] = 0; return r;
}
static uint64_t fnv(const unsigned char *p, size_t n, uint64_t h)
{ for (size_t i = 0; i < n; i++) { h ^= p[i]; h *= 1099511628211ULL; } return h; }

/* invariant walker (library hook): runs after every script op on every open file.  The agreement of the mode flags of
 * dispatcher and driver is only demanded of files on which no mode-changing call has ever failed. */
static int Ftaint[1100];
static int g_walk = -1;
static long g_nwalks = 0;
static void auto_walk(const char *op);

static int get_ncid(void)
{
    const char *v = arg("ncid"); if (v) return (int)strtoll(v, NULL, 0);
    long long s = argireq("f"); if (s < 0 || s >= NF) die("bad file slot"); return F[s];
}
static MPI_Datatype predefined(const char *n)
{
    static const struct { const char *n; MPI_Datatype t; } tab[] = {
        {"byte", MPI_BYTE}, {"char", MPI_CHAR}, {"text", MPI_CHAR}, {"schar", MPI_SIGNED_CHAR}, {"uchar", MPI_UNSIGNED_CHAR},
        {"short", MPI_SHORT}, {"ushort", MPI_UNSIGNED_SHORT}, {"int", MPI_INT}, {"uint", MPI_UNSIGNED},
        {"long", MPI_LONG}, {"float", MPI_FLOAT}, {"double", MPI_DOUBLE}, {"longlong", MPI_LONG_LONG_INT},
        {"ulonglong", MPI_UNSIGNED_LONG_LONG}, {"null", MPI_DATATYPE_NULL}, {NULL, MPI_DATATYPE_NULL} };
    for (int i = 0; tab[i].n; i++) if (!strcmp(tab[i].n, n)) return tab[i].t;
    die("unknown type %s", n); return MPI_DATATYPE_NULL;
}
static MPI_Datatype typeref(const char *v)
{
    if (!v) return MPI_DATATYPE_NULL;
    if (v[0] == 't' && v[1] >= '0' && v[1] <= '9') { int s = atoi(v + 1); if (s < 0 || s >= NT) die("bad type slot"); return T[s]; }
    return predefined(v);
}
static int lookup(const char **names, const char *v)
{ for (int i = 0; names[i]; i++) if (!strcmp(names[i], v)) return i; die("unknown token %s", v); return -1; }

/* buffer contents: hex:<hex> | rep:<hex>:<count> | ramp:<elsz>:<start>:<n> | zero:<n> */
static unsigned char *decdata(const char *v, size_t *n)
{
    if (!strncmp(v, "hex:", 4)) {
        size_t m = strlen(v + 4) / 2; unsigned char *r = malloc(m + 1);
        for (size_t i = 0; i < m; i++) r[i] = (unsigned char)(hexval(v[4 + 2*i]) * 16 + hexval(v[5 + 2*i]));
        *n = m; return r;
    }
    if (!strncmp(v, "rep:", 4)) {
        const char *c = strchr(v + 4, ':'); if (!c) die("bad rep");
        size_t pl = (size_t)(c - (v + 4)) / 2; long long cnt = strtoll(c + 1, NULL, 0);
        unsigned char *r = malloc(pl * cnt + 1);
        for (size_t i = 0; i < pl; i++) r[i] = (unsigned char)(hexval(v[4 + 2*i]) * 16 + hexval(v[5 + 2*i]));
        for (long long k = 1; k < cnt; k++) memcpy(r + k * pl, r, pl);
        *n = pl * cnt; return r;
    }
    if (!strncmp(v, "ramp:", 5)) {
        long long es, st, cnt; if (sscanf(v + 5, "%lld:%lld:%lld", &es, &st, &cnt) != 3) die("bad ramp");
        unsigned char *r = malloc(es * cnt + 1);
        for (long long i = 0; i < cnt; i++) { unsigned long long x = (unsigned long long)(st + i); memcpy(r + i * es, &x, es); }
        *n = es * cnt; return r;
    }
    if (!strncmp(v, "zero:", 5)) { long long cnt = strtoll(v + 5, NULL, 0); *n = cnt; return calloc(cnt + 1, 1); }
    die("bad data spec"); return NULL;
}
static unsigned char *galloc(size_t n, int fill)
{
    unsigned char *raw = malloc(n + 2 * GUARD);
    memset(raw, 0xA5, GUARD); memset(raw + GUARD, fill, n); memset(raw + GUARD + n, 0xA5, GUARD);
    return raw;
}
static int gcheck(const unsigned char *raw, size_t n)
{
    for (int i = 0; i < GUARD; i++) if (raw[i] != 0xA5 || raw[GUARD + n + i] != 0xA5) return 0;
    return 1;
}
static void logbuf(const unsigned char *p, size_t n, int hashonly)
{
    if (hashonly) { logf_(" n=%zu hash=%016llx", n, (unsigned long long)fnv(p, n, 1469598103934665603ULL)); return; }
    char *h = hexenc(p, n); fprintf(g_log, " hex=%s", h); free(h);
}
static void freebuf(int s)
{ free(B[s].raw); free(B[s].pristine); memset(&B[s], 0, sizeof(B[s])); }

/* ------------------------------------------------------------------ ops */
static MPI_Info mkinfo(const char *v)
{
    if (!v || !strcmp(v, "-")) return MPI_INFO_NULL;
    MPI_Info info; PMPI_Info_create(&info);
    char *s = strdup(v), *save = NULL;
    for (char *t = strtok_r(s, ";", &save); t; t = strtok_r(NULL, ";", &save)) {
        char *c = strchr(t, ':'); if (!c) die("bad info"); *c = 0;
        PMPI_Info_set(info, t, c + 1);
    }
    free(s); return info;
}
static MPI_Comm getcomm(void)
{ const char *c = arg("comm"); if (c && !strcmp(c, "self")) return MPI_COMM_SELF; return MPI_COMM_WORLD; }

static void op_create_open(const char *op)
{
    int slot = (int)argireq("f"); char *path = argstr("path");
    MPI_Info info = mkinfo(arg("info"));
    int id = -12345, err;
    if (!strcmp(op, "create")) err = ncmpi_create(getcomm(), path, (int)argi("cmode", 0), info, &id);
    else err = ncmpi_open(getcomm(), path, (int)argi("omode", 0), info, &id);
    if (info != MPI_INFO_NULL) PMPI_Info_free(&info);
    if (slot >= 0 && slot < NF) { F[slot] = id; Ftaint[slot] = 0; }
    logf_("R %d %s err=%d ncid=%d\n", g_line, op, err, id);
    free(path);
}

static void op_simple(const char *op)
{
    int ncid = get_ncid(), err;
    if (!strcmp(op, "close")) err = ncmpi_close(ncid);
    else if (!strcmp(op, "abort")) err = ncmpi_abort(ncid);
    else if (!strcmp(op, "redef")) err = ncmpi_redef(ncid);
    else if (!strcmp(op, "enddef")) err = ncmpi_enddef(ncid);
    else if (!strcmp(op, "_enddef")) err = ncmpi__enddef(ncid, argi("hmin", 0), argi("valign", 0), argi("vmin", 0), argi("ralign", 0));
    else if (!strcmp(op, "begin_indep")) err = ncmpi_begin_indep_data(ncid);
    else if (!strcmp(op, "end_indep")) err = ncmpi_end_indep_data(ncid);
    else if (!strcmp(op, "sync")) err = ncmpi_sync(ncid);
    else if (!strcmp(op, "sync_numrecs")) err = ncmpi_sync_numrecs(ncid);
    else if (!strcmp(op, "flush")) err = ncmpi_flush(ncid);
    else if (!strcmp(op, "sync3")) { err = ncmpi_sync(ncid); PMPI_Barrier(MPI_COMM_WORLD); int e2 = ncmpi_sync(ncid); if (!err) err = e2; }
    else if (!strcmp(op, "attach")) err = ncmpi_buffer_attach(ncid, argireq("size"));
    else if (!strcmp(op, "detach")) err = ncmpi_buffer_detach(ncid);
    else if (!strcmp(op, "fill_var_rec")) err = ncmpi_fill_var_rec(ncid, (int)argireq("v"), argireq("rec"));
    else if (!strcmp(op, "set_fill")) { int old = -1; err = ncmpi_set_fill(ncid, (int)argireq("mode"), &old); logf_("R %d %s err=%d old=%d\n", g_line, op, err, old); return; }
    else { die("unknown simple op %s", op); return; }
    if (err != NC_NOERR && !arg("ncid")) Ftaint[argireq("f")] = 1;
    logf_("R %d %s err=%d\n", g_line, op, err);
}

static void op_def(const char *op)
{
    int ncid = strcmp(op, "copy_att") ? get_ncid() : -1, err, id = -12345;
    if (!strcmp(op, "def_dim")) { char *nm = argstr("name"); err = ncmpi_def_dim(ncid, nm, argireq("len"), &id); free(nm); }
    else if (!strcmp(op, "def_var")) {
        char *nm = argstr("name"); int nd; int *dimids = arglist_int("dimids", &nd);
        if (arg("ndims")) nd = (int)argireq("ndims");
        err = ncmpi_def_var(ncid, nm, (nc_type)argireq("xtype"), nd, dimids, &id); free(nm); free(dimids);
    }
    else if (!strcmp(op, "def_var_fill")) {
        size_t n = 0; unsigned char *fv = NULL; const char *d = arg("fill");
        if (d && strcmp(d, "-")) fv = decdata(d, &n);
        err = ncmpi_def_var_fill(ncid, (int)argireq("v"), (int)argireq("nofill"), fv); free(fv); id = 0;
    }
    else if (!strcmp(op, "rename_dim")) { char *nm = argstr("name"); err = ncmpi_rename_dim(ncid, (int)argireq("d"), nm); free(nm); id = 0; }
    else if (!strcmp(op, "rename_var")) { char *nm = argstr("name"); err = ncmpi_rename_var(ncid, (int)argireq("v"), nm); free(nm); id = 0; }
    else if (!strcmp(op, "rename_att")) { char *nm = argstr("name"), *nn = argstr("newname"); err = ncmpi_rename_att(ncid, (int)argireq("v"), nm, nn); free(nm); free(nn); id = 0; }
    else if (!strcmp(op, "del_att")) { char *nm = argstr("name"); err = ncmpi_del_att(ncid, (int)argireq("v"), nm); free(nm); id = 0; }
    else if (!strcmp(op, "copy_att")) {
        char *nm = argstr("name"); int fin = F[argireq("fin")], fout = F[argireq("fout")];
        if (arg("ncid_in")) fin = (int)argireq("ncid_in"); if (arg("ncid_out")) fout = (int)argireq("ncid_out");
        err = ncmpi_copy_att(fin, (int)argireq("vin"), nm, fout, (int)argireq("vout")); free(nm); id = 0;
    }
    else { die("unknown def op"); return; }
    logf_("R %d %s err=%d id=%d\n", g_line, op, err, id);
}

static void op_att(const char *op)
{
    int ncid = get_ncid(), err; const char *api = "?";
    char *nm = argstr("name"); int varid = (int)argireq("v");
    int mt = lookup(MT_NAMES, argreq("mt"));
    if (!strcmp(op, "put_att")) {
        size_t n = 0; unsigned char *d = decdata(argreq("data"), &n);
        unsigned char *raw = galloc(n, 0); memcpy(raw + GUARD, d, n);
        err = call_put_att(mt, ncid, varid, nm, (nc_type)argi("xtype", 0), argireq("n"), raw + GUARD, &api);
        int same = !memcmp(raw + GUARD, d, n) && gcheck(raw, n);
        logf_("R %d %s api=%s err=%d bufsame=%d\n", g_line, op, api, err, same);
        free(raw); free(d);
    } else {
        size_t n = (size_t)argireq("nbytes");
        unsigned char *raw = galloc(n, 0x5A);
        err = call_get_att(mt, ncid, varid, nm, raw + GUARD, &api);
        fprintf(g_log, "R %d %s api=%s err=%d guard=%d", g_line, op, api, err, gcheck(raw, n));
        logbuf(raw + GUARD, n, 0); logf_("\n");
        free(raw);
    }
    free(nm);
}

static MPI_Offset **arg2d(const char *k, int *num)
{   /* "a,b;c,d" ; "-" => NULL ; rows "n" => NULL row */
    const char *v = arg(k); *num = 0;
    if (!v || !strcmp(v, "-")) return NULL;
    int rows = 1; for (const char *p = v; *p; p++) if (*p == ';') rows++;
    MPI_Offset **r = calloc(rows + 1, sizeof(*r));
    char *s = strdup(v), *save = NULL; int i = 0;
    for (char *t = strtok_r(s, ";", &save); t; t = strtok_r(NULL, ";", &save), i++) {
        if (!strcmp(t, "n")) { r[i] = NULL; continue; }
        int cnt = 1; for (char *p = t; *p; p++) if (*p == ',') cnt++;
        r[i] = malloc(sizeof(MPI_Offset) * cnt);
        char *p = t; for (int j = 0; j < cnt; j++) { char *e; r[i][j] = strtoll(p, &e, 0); p = (*e == ',') ? e + 1 : e; }
    }
    free(s); *num = i; return r;
}

static void op_var(const char *op)
{
    int kind = lookup(KIND_NAMES, op);
    int form = lookup(FORM_NAMES, argreq("form"));
    int mt = lookup(MT_NAMES, argreq("mt"));
    int coll = (int)argi("coll", 0);
    int ncid = get_ncid(), varid = (int)argireq("v");
    MPI_Offset *start = arglist("start", NULL), *count = arglist("count", NULL);
    MPI_Offset *stride = arglist("stride", NULL), *imap = arglist("imap", NULL);
    int num = 0, num2 = 0;
    MPI_Offset **starts = arg2d("starts", &num), **counts = arg2d("counts", &num2);
    if (arg("num")) num = (int)argireq("num");
    MPI_Offset bufcount = argi("bufcount", 0);
    MPI_Datatype buftype = typeref(arg("buftype")), ftype = typeref(arg("ftype"));
    int isget = (kind == 1 || kind == 3), nb = (kind >= 2);
    int bslot = (int)argi("buf", -1), rslot = (int)argi("req", -1);
    int hashonly = (int)argi("hash", 0);
    size_t n = 0; unsigned char *raw, *pristine = NULL;
    if (isget) { n = (size_t)argireq("nbytes"); raw = galloc(n, (int)argi("sent", 0x5A)); }
    else { pristine = decdata(argreq("data"), &n); raw = galloc(n, 0); memcpy(raw + GUARD, pristine, n); }
    void *bufp = raw + GUARD;
    if (arg("nullbuf")) bufp = NULL;
    int req = -4242, err; const char *api = "?";
    err = call_var(kind, form, mt, coll, ncid, varid, start, count, stride, imap, num, starts, counts,
                   bufp, bufcount, buftype, ftype, nb ? &req : NULL, &api);
    fprintf(g_log, "R %d %s api=%s err=%d", g_line, op, api, err);
    if (nb) { fprintf(g_log, " req=%d", req); if (rslot >= 0 && rslot < NR) R[rslot] = req; }
    if (!nb) {
        if (isget) { fprintf(g_log, " guard=%d", gcheck(raw, n)); logbuf(raw + GUARD, n, hashonly); }
        else fprintf(g_log, " bufsame=%d guard=%d", !memcmp(raw + GUARD, pristine, n), gcheck(raw, n));
        free(raw); free(pristine);
    } else {
        if (bslot < 0 || bslot >= NB) die("nonblocking op needs buf slot");
        if (B[bslot].raw) freebuf(bslot);
        B[bslot].raw = raw; B[bslot].n = n; B[bslot].pristine = pristine; B[bslot].isget = isget;
        if (kind == 4 && argi("scribble", 0)) { memset(raw + GUARD, 0xEE, n); B[bslot].scribbled = 1; }
    }
    logf_("\n");
    free(start); free(count); free(stride); free(imap);
    if (starts) { for (int i = 0; i < num || i < num2; i++) if (starts[i]) free(starts[i]); free(starts); }
    if (counts) { for (int i = 0; i < num2; i++) if (counts[i]) free(counts[i]); free(counts); }
}

static void op_wait(const char *op)
{
    int ncid = get_ncid(), err;
    const char *v = argreq("reqs");
    int n = 0, *ids = NULL, *st = NULL, *slots = NULL;
    if (!strcmp(v, "all")) n = NC_REQ_ALL;
    else if (!strcmp(v, "allget")) n = NC_GET_REQ_ALL;
    else if (!strcmp(v, "allput")) n = NC_PUT_REQ_ALL;
    else if (!strcmp(v, "none")) n = 0;
    else {
        int cnt = 1; for (const char *p = v; *p; p++) if (*p == ',') cnt++;
        ids = malloc(sizeof(int) * cnt); slots = malloc(sizeof(int) * cnt);
        char *s = strdup(v), *save = NULL;
        for (char *t = strtok_r(s, ",", &save); t; t = strtok_r(NULL, ",", &save), n++) {
            if (!strcmp(t, "null")) { ids[n] = NC_REQ_NULL; slots[n] = -1; }
            else if (t[0] == '#') { ids[n] = atoi(t + 1); slots[n] = -1; }      /* literal id */
            else { slots[n] = atoi(t); ids[n] = R[slots[n]]; }
        }
        free(s);
    }
    int cntarg = n;
    if (arg("count")) cntarg = (int)argireq("count");
    if (n > 0 && argi("statuses", 1)) { st = malloc(sizeof(int) * n); for (int i = 0; i < n; i++) st[i] = -7777; }
    if (!strcmp(op, "wait")) {
        if ((int)argi("coll", 0)) err = ncmpi_wait_all(ncid, cntarg, ids, st);
        else err = ncmpi_wait(ncid, cntarg, ids, st);
    } else err = ncmpi_cancel(ncid, cntarg, ids, st);
    fprintf(g_log, "R %d %s err=%d ids=", g_line, op, err);
    for (int i = 0; i < n; i++) { fprintf(g_log, "%s%d", i ? "," : "", ids[i]); if (slots[i] >= 0) R[slots[i]] = ids[i]; }
    fprintf(g_log, " st=");
    if (st) for (int i = 0; i < n; i++) fprintf(g_log, "%s%d", i ? "," : "", st[i]);
    logf_("\n");
    free(ids); free(st); free(slots);
}

static void op_bufs(const char *op)
{
    int s = (int)argireq("b"); if (s < 0 || s >= NB || !B[s].raw) die("bad buf slot %d", s);
    if (!strcmp(op, "chkbuf")) {
        int same = B[s].scribbled ? -1 : (B[s].pristine ? !memcmp(B[s].raw + GUARD, B[s].pristine, B[s].n) : -1);
        logf_("R %d chkbuf bufsame=%d guard=%d\n", g_line, same, gcheck(B[s].raw, B[s].n));
    } else if (!strcmp(op, "dumpbuf")) {
        fprintf(g_log, "R %d dumpbuf guard=%d", g_line, gcheck(B[s].raw, B[s].n));
        logbuf(B[s].raw + GUARD, B[s].n, (int)argi("hash", 0)); logf_("\n");
    }
    if (argi("free", 1)) freebuf(s);
}

static void lognamehex(const char *k, const char *nm)
{ char *h = hexenc((const unsigned char *)nm, strlen(nm)); fprintf(g_log, " %s=%s", k, h); free(h); }

static size_t xtsize(nc_type t)
{ switch (t) { case NC_BYTE: case NC_CHAR: case NC_UBYTE: return 1; case NC_SHORT: case NC_USHORT: return 2;
  case NC_INT: case NC_UINT: case NC_FLOAT: return 4; default: return 8; } }

static void sweep_atts(int ncid, int varid, int natts)
{
    char nm[NC_MAX_NAME + 8];
    for (int a = 0; a < natts; a++) {
        nc_type xt = -1; MPI_Offset len = -1; int e1, e2, e3, id2 = -1;
        memset(nm, 0, sizeof(nm));
        e1 = ncmpi_inq_attname(ncid, varid, a, nm);
        if (e1) { logf_("S %d att v=%d a=%d err=%d\n", g_line, varid, a, e1); continue; }
        e2 = ncmpi_inq_att(ncid, varid, nm, &xt, &len);
        e3 = ncmpi_inq_attid(ncid, varid, nm, &id2);
        fprintf(g_log, "S %d att v=%d a=%d err=%d,%d,%d", g_line, varid, a, e1, e2, e3);
        lognamehex("name", nm);
        fprintf(g_log, " xtype=%d len=%lld idbyname=%d", (int)xt, (long long)len, id2);
        if (!e2 && len >= 0 && len < (1 << 24)) {
            size_t n = (size_t)len * xtsize(xt);
            unsigned char *raw = galloc(n, 0x5A);
            int e4 = ncmpi_get_att(ncid, varid, nm, raw + GUARD);
            fprintf(g_log, " geterr=%d guard=%d", e4, gcheck(raw, n)); logbuf(raw + GUARD, n, 0);
            free(raw);
        }
        logf_("\n");
    }
    /* one past the end must fail */
    int e = ncmpi_inq_attname(ncid, varid, natts, nm);
    logf_("S %d attend v=%d err=%d\n", g_line, varid, e);
}

static void op_sweep(void)
{
    int ncid = get_ncid(), nd = -1, nv = -1, ng = -1, ud = -2, fmt = -1, err;
    err = ncmpi_inq(ncid, &nd, &nv, &ng, &ud);
    int e2 = ncmpi_inq_format(ncid, &fmt);
    MPI_Offset hs = -1, he = -1, rs = -1; int nrv = -1, nfv = -1;
    int e3 = ncmpi_inq_header_size(ncid, &hs), e4 = ncmpi_inq_header_extent(ncid, &he), e5 = ncmpi_inq_recsize(ncid, &rs);
    int e6 = ncmpi_inq_num_rec_vars(ncid, &nrv), e7 = ncmpi_inq_num_fix_vars(ncid, &nfv);
    logf_("S %d file err=%d,%d,%d,%d,%d,%d,%d ndims=%d nvars=%d ngatts=%d unlim=%d format=%d hsize=%lld hextent=%lld recsize=%lld nrecvars=%d nfixvars=%d\n",
          g_line, err, e2, e3, e4, e5, e6, e7, nd, nv, ng, ud, fmt, (long long)hs, (long long)he, (long long)rs, nrv, nfv);
    if (err) { logf_("R %d sweep err=%d\n", g_line, err); return; }
    char nm[NC_MAX_NAME + 8];
    for (int d = 0; d < nd; d++) {
        MPI_Offset len = -1, len2 = -1; int id2 = -1; memset(nm, 0, sizeof(nm));
        char nm2[NC_MAX_NAME + 8]; memset(nm2, 0, sizeof(nm2));
        int a = ncmpi_inq_dim(ncid, d, nm, &len), b = ncmpi_inq_dimid(ncid, nm, &id2);
        int c = ncmpi_inq_dimname(ncid, d, nm2), e = ncmpi_inq_dimlen(ncid, d, &len2);
        fprintf(g_log, "S %d dim d=%d err=%d,%d,%d,%d", g_line, d, a, b, c, e); lognamehex("name", nm);
        logf_(" len=%lld idbyname=%d same=%d\n", (long long)len, id2, !strcmp(nm, nm2) && len == len2);
    }
    for (int v = 0; v < nv; v++) {
        nc_type xt = -1, xt2 = -1; int ndims = -1, ndims2 = -1, natts = -1, natts2 = -1, id2 = -1, nofill = -1;
        int dimids[64], dimids2[64]; MPI_Offset off = -1; memset(nm, 0, sizeof(nm));
        char nm2[NC_MAX_NAME + 8]; memset(nm2, 0, sizeof(nm2));
        int a = ncmpi_inq_varndims(ncid, v, &ndims);
        if (a || ndims > 64) { logf_("S %d var v=%d err=%d ndims=%d\n", g_line, v, a, ndims); continue; }
        a = ncmpi_inq_var(ncid, v, nm, &xt, &ndims, dimids, &natts);
        int b = ncmpi_inq_varid(ncid, nm, &id2), c = ncmpi_inq_varoffset(ncid, v, &off);
        unsigned char fv[16]; memset(fv, 0x5A, sizeof(fv));
        int d = ncmpi_inq_var_fill(ncid, v, &nofill, fv);
        int e = ncmpi_inq_varname(ncid, v, nm2) | ncmpi_inq_vartype(ncid, v, &xt2) | ncmpi_inq_vardimid(ncid, v, dimids2)
              | ncmpi_inq_varnatts(ncid, v, &natts2);
        ndims2 = ndims;
        int same = !strcmp(nm, nm2) && xt == xt2 && natts == natts2 && !memcmp(dimids, dimids2, sizeof(int) * (ndims > 0 ? ndims : 0));
        fprintf(g_log, "S %d var v=%d err=%d,%d,%d,%d,%d", g_line, v, a, b, c, d, e); lognamehex("name", nm);
        fprintf(g_log, " xtype=%d ndims=%d dimids=", (int)xt, ndims2);
        for (int i = 0; i < ndims; i++) fprintf(g_log, "%s%d", i ? "," : "", dimids[i]);
        if (ndims == 0) fprintf(g_log, "-");
        char *h = hexenc(fv, xtsize(xt));
        logf_(" natts=%d idbyname=%d offset=%lld nofill=%d fill=%s same=%d\n", natts, id2, (long long)off, nofill, h, same);
        free(h);
    }
    sweep_atts(ncid, NC_GLOBAL, ng);
    for (int v = 0; v < nv; v++) { int na = 0; if (!ncmpi_inq_varnatts(ncid, v, &na)) sweep_atts(ncid, v, na); }
    logf_("R %d sweep err=0\n", g_line);
}

static void op_inq(void)
{
    const char *w = argreq("what"); int err = 0; long long val = -1, val2 = -1;
    if (!strcmp(w, "malloc")) { MPI_Offset a = -1, b = -1; err = ncmpi_inq_malloc_size(&a); ncmpi_inq_malloc_max_size(&b); val = a; val2 = b; }
    else if (!strcmp(w, "default_format")) { int f = -1; err = ncmpi_inq_default_format(&f); val = f; }
    else if (!strcmp(w, "file_format")) { int f = -1; char *p = argstr("path"); err = ncmpi_inq_file_format(p, &f); val = f; free(p); }
    else if (!strcmp(w, "files_opened")) { int n = -1; err = ncmpi_inq_files_opened(&n, NULL); val = n; }
    else {
        int ncid = get_ncid(); MPI_Offset o = -1; int i = -1, j = -1;
        if (!strcmp(w, "format")) { err = ncmpi_inq_format(ncid, &i); val = i; }
        else if (!strcmp(w, "version")) { err = ncmpi_inq_version(ncid, &i); val = i; }
        else if (!strcmp(w, "header_size")) { err = ncmpi_inq_header_size(ncid, &o); val = o; }
        else if (!strcmp(w, "header_extent")) { err = ncmpi_inq_header_extent(ncid, &o); val = o; }
        else if (!strcmp(w, "recsize")) { err = ncmpi_inq_recsize(ncid, &o); val = o; }
        else if (!strcmp(w, "put_size")) { err = ncmpi_inq_put_size(ncid, &o); val = o; }
        else if (!strcmp(w, "get_size")) { err = ncmpi_inq_get_size(ncid, &o); val = o; }
        else if (!strcmp(w, "nreqs")) { err = ncmpi_inq_nreqs(ncid, &i); val = i; }
        else if (!strcmp(w, "buffer")) { MPI_Offset u = -1; err = ncmpi_inq_buffer_usage(ncid, &u); int e2 = ncmpi_inq_buffer_size(ncid, &o); val = u; val2 = o; if (!err) err = e2; }
        else if (!strcmp(w, "varoffset")) { err = ncmpi_inq_varoffset(ncid, (int)argireq("v"), &o); val = o; }
        else if (!strcmp(w, "unlimdim")) { err = ncmpi_inq_unlimdim(ncid, &i); val = i; }
        else if (!strcmp(w, "dimlen")) { err = ncmpi_inq_dimlen(ncid, (int)argireq("d"), &o); val = o; }
        else if (!strcmp(w, "numrecs")) { err = ncmpi_inq_unlimdim(ncid, &i); if (!err && i >= 0) err = ncmpi_inq_dimlen(ncid, i, &o); val = o; val2 = i; }
        else if (!strcmp(w, "striping")) { err = ncmpi_inq_striping(ncid, &i, &j); val = i; val2 = j; }
        else if (!strcmp(w, "nvars")) { err = ncmpi_inq_nvars(ncid, &i); val = i; }
        else if (!strcmp(w, "ndims")) { err = ncmpi_inq_ndims(ncid, &i); val = i; }
        else if (!strcmp(w, "natts")) { err = ncmpi_inq_natts(ncid, &i); val = i; }
        else if (!strcmp(w, "varid")) { char *n = argstr("name"); err = ncmpi_inq_varid(ncid, n, &i); val = i; free(n); }
        else if (!strcmp(w, "dimid")) { char *n = argstr("name"); err = ncmpi_inq_dimid(ncid, n, &i); val = i; free(n); }
        else if (!strcmp(w, "attlen")) { char *n = argstr("name"); err = ncmpi_inq_attlen(ncid, (int)argireq("v"), n, &o); val = o; free(n); }
        else if (!strcmp(w, "vartype")) { nc_type t = -1; err = ncmpi_inq_vartype(ncid, (int)argireq("v"), &t); val = t; }
        else if (!strcmp(w, "path")) { char p[4096]; p[0] = 0; err = ncmpi_inq_path(ncid, &i, p); val = i; fprintf(g_log, "R %d inq what=path err=%d val=%lld", g_line, err, val); lognamehex("path", p); logf_("\n"); return; }
        else if (!strcmp(w, "info")) {
            MPI_Info info = MPI_INFO_NULL; err = ncmpi_inq_file_info(ncid, &info);
            fprintf(g_log, "R %d inq what=info err=%d info=", g_line, err);
            if (!err && info != MPI_INFO_NULL) {
                int nk = 0; PMPI_Info_get_nkeys(info, &nk);
                for (int k = 0; k < nk; k++) {
                    char key[MPI_MAX_INFO_KEY + 1], valb[MPI_MAX_INFO_VAL + 1]; int flag;
                    PMPI_Info_get_nthkey(info, k, key); PMPI_Info_get(info, key, MPI_MAX_INFO_VAL, valb, &flag);
                    for (char *c = valb; *c; c++) if (*c == ' ' || *c == ';') *c = '_';
                    fprintf(g_log, "%s%s:%s", k ? ";" : "", key, valb);
                }
                MPI_Info_free(&info);   /* through the shim: balances the library's create */
            }
            logf_("\n"); return;
        }
        else die("unknown inq %s", w);
    }
    logf_("R %d inq what=%s err=%d val=%lld val2=%lld\n", g_line, w, err, val, val2);
}

/* readsome: for every variable read the first element (var1) and, when small, the whole variable; bounded work */
static void op_readsome(void)
{
    int ncid = get_ncid(), nv = 0, err, nread = 0, nerr = 0, firsterr = 0;
    long long maxbytes = argi("max", 65536);
    err = ncmpi_inq_nvars(ncid, &nv);
    if (err) { logf_("R %d readsome err=%d\n", g_line, err); return; }
    for (int v = 0; v < nv && v < 64; v++) {
        int nd = -1; nc_type xt = -1; int dimids[64];
        if (ncmpi_inq_varndims(ncid, v, &nd) || nd < 0 || nd > 64) { nerr++; continue; }
        if (ncmpi_inq_var(ncid, v, NULL, &xt, NULL, dimids, NULL)) { nerr++; continue; }
        MPI_Offset start[64], count[64]; long long total = 1; int empty = 0;
        for (int d = 0; d < nd; d++) { MPI_Offset len = 0; if (ncmpi_inq_dimlen(ncid, dimids[d], &len)) { empty = 1; break; }
            start[d] = 0; count[d] = len; if (len <= 0) empty = 1;
            if (len > (1LL << 20) || total > (1LL << 40)) total = (1LL << 41); else total *= (len > 0 ? len : 1); }
        if (empty) continue;
        unsigned char *raw = galloc(16, 0x5A);
        int e = ncmpi_get_var1(ncid, v, start, raw + GUARD, 0, MPI_DATATYPE_NULL);
        if (e) { nerr++; if (!firsterr) firsterr = e; } else nread++;
        if (!gcheck(raw, 16)) { logf_("S %d readsome guard=0 v=%d\n", g_line, v); }
        free(raw);
        size_t xs = xtsize(xt);
        if (total > 0 && total <= (1LL << 40) && total * (long long)xs <= maxbytes) {
            raw = galloc((size_t)total * xs, 0x5A);
            e = ncmpi_get_vara_all(ncid, v, start, count, raw + GUARD, 0, MPI_DATATYPE_NULL);
            if (e) { nerr++; if (!firsterr) firsterr = e; } else nread++;
            if (!gcheck(raw, (size_t)total * xs)) { logf_("S %d readsome guard=0 v=%d\n", g_line, v); }
            free(raw);
        }
    }
    logf_("R %d readsome err=0 nvars=%d nread=%d nerr=%d firsterr=%d\n", g_line, nv, nread, nerr, firsterr);
}

static unsigned char *readfile(const char *path, size_t *n)
{
    int fd = open(path, O_RDONLY); *n = 0; if (fd < 0) return NULL;
    struct stat sb; fstat(fd, &sb); unsigned char *p = malloc(sb.st_size + 1); size_t got = 0;
    while (got < (size_t)sb.st_size) { ssize_t r = read(fd, p + got, sb.st_size - got); if (r <= 0) break; got += r; }
    close(fd); *n = got; return p;
}

static void op_file(const char *op)
{
    char *path = argstr("path");
    if (!strcmp(op, "snapshot")) {
        size_t n; unsigned char *p = readfile(path, &n); char dst[4096];
        snprintf(dst, sizeof(dst), "%s/snap.%s", g_outdir, argreq("tag"));
        if (p) { FILE *f = fopen(dst, "wb"); fwrite(p, 1, n, f); fclose(f); }
        logf_("R %d snapshot err=%d size=%zu\n", g_line, p ? 0 : -1, n); free(p);
    } else if (!strcmp(op, "filehash")) {
        size_t n; unsigned char *p = readfile(path, &n);
        logf_("R %d filehash exists=%d size=%zu hash=%016llx\n", g_line, p != NULL, n, p ? (unsigned long long)fnv(p, n, 1469598103934665603ULL) : 0ULL); free(p);
    } else if (!strcmp(op, "fsnap")) {
        int s = (int)argireq("slot"); free(SNAP[s].p); SNAP[s].p = readfile(path, &SNAP[s].n);
        logf_("R %d fsnap exists=%d size=%zu\n", g_line, SNAP[s].p != NULL, SNAP[s].n);
    } else if (!strcmp(op, "fdiff")) {
        int s = (int)argireq("slot"); size_t n; unsigned char *p = readfile(path, &n);
        fprintf(g_log, "R %d fdiff exists=%d old=%zu new=%zu ranges=", g_line, p != NULL, SNAP[s].n, n);
        size_t m = n < SNAP[s].n ? n : SNAP[s].n, i = 0; int first = 1, cnt = 0;
        while (i < m && p && SNAP[s].p) {
            if (p[i] != SNAP[s].p[i]) { size_t j = i; while (j < m && p[j] != SNAP[s].p[j]) j++;
                if (cnt++ < 2000) fprintf(g_log, "%s%zu-%zu", first ? "" : ",", i, j); first = 0; i = j; }
            else i++;
        }
        /* bytes appended: report the non-zero ones as ranges too */
        if (p && n > m) { size_t k = m; while (k < n) { if (p[k]) { size_t j = k; while (j < n && p[j]) j++;
                if (cnt++ < 2000) fprintf(g_log, "%s%zu-%zu", first ? "" : ",", k, j); first = 0; k = j; } else k++; } }
        logf_(" nranges=%d\n", cnt);
        if (argi("update", 1)) { free(SNAP[s].p); SNAP[s].p = p; SNAP[s].n = n; } else free(p);
    } else if (!strcmp(op, "pread")) {
        long long off = argi("off", 0), len = argireq("len");
        if (arg("voff")) { MPI_Offset vb = 0; ncmpi_inq_varoffset(get_ncid(), (int)argireq("voff"), &vb); off += vb; }
        int fd = open(path, O_RDONLY);
        unsigned char *p = calloc(len + 1, 1); ssize_t r = fd >= 0 ? pread(fd, p, len, off) : -1; if (fd >= 0) close(fd);
        fprintf(g_log, "R %d pread got=%zd", g_line, r); if (r > 0) logbuf(p, r, 0); logf_("\n"); free(p);
    } else if (!strcmp(op, "prefill")) {   /* create a file of given size filled with a byte pattern */
        long long size = argireq("size"); int byte = (int)argi("byte", 0xC3);
        FILE *f = fopen(path, "wb"); unsigned char blk[4096]; memset(blk, byte, sizeof(blk));
        for (long long w = 0; w < size; w += sizeof(blk)) fwrite(blk, 1, (size - w) < (long long)sizeof(blk) ? (size - w) : sizeof(blk), f);
        fclose(f);
        const char *ln = arg("symlink"); if (ln) { char *l = decstr(ln, NULL); unlink(l); if (symlink(path, l)) {} free(l); }
        logf_("R %d prefill err=0\n", g_line);
    } else if (!strcmp(op, "unlink")) { int r = unlink(path); logf_("R %d unlink err=%d\n", g_line, r ? errno : 0); }
    else if (!strcmp(op, "delete")) { int e = ncmpi_delete(path, MPI_INFO_NULL); logf_("R %d delete err=%d\n", g_line, e); }
    else if (!strcmp(op, "listdir")) {
        char cmd[4200]; snprintf(cmd, sizeof(cmd), "ls -1 %s 2>/dev/null | tr '\\n' ','", path);
        FILE *f = popen(cmd, "r"); char out[8192]; size_t r = f ? fread(out, 1, sizeof(out) - 1, f) : 0; out[r] = 0; if (f) pclose(f);
        logf_("R %d listdir names=%s\n", g_line, out);
    }
    else die("unknown file op");
    free(path);
}

static void op_type(void)
{
    int s = (int)argireq("t"); const char *k = argreq("kind"); MPI_Datatype base = typeref(argreq("base")), nt = MPI_DATATYPE_NULL;
    int e = 0;
    if (!strcmp(k, "contig")) e = PMPI_Type_contiguous((int)argireq("n"), base, &nt);
    else if (!strcmp(k, "vector")) e = PMPI_Type_vector((int)argireq("n"), (int)argireq("bl"), (int)argireq("stride"), base, &nt);
    else if (!strcmp(k, "hvector")) e = PMPI_Type_create_hvector((int)argireq("n"), (int)argireq("bl"), (MPI_Aint)argireq("stride"), base, &nt);
    else if (!strcmp(k, "indexed")) { int n; int *bl = arglist_int("bls", &n), *dp = arglist_int("disps", &n); e = PMPI_Type_indexed(n, bl, dp, base, &nt); free(bl); free(dp); }
    else if (!strcmp(k, "hindexed")) { int n; int *bl = arglist_int("bls", &n); MPI_Offset *d = arglist("disps", &n); MPI_Aint *dp = malloc(sizeof(MPI_Aint) * (n + 1));
        for (int i = 0; i < n; i++) dp[i] = (MPI_Aint)d[i]; e = PMPI_Type_create_hindexed(n, bl, dp, base, &nt); free(bl); free(d); free(dp); }
    else if (!strcmp(k, "subarray")) { int n; int *sz = arglist_int("sizes", &n), *ss = arglist_int("subsizes", &n), *st = arglist_int("starts", &n);
        e = PMPI_Type_create_subarray(n, sz, ss, st, MPI_ORDER_C, base, &nt); free(sz); free(ss); free(st); }
    else if (!strcmp(k, "resized")) e = PMPI_Type_create_resized(base, (MPI_Aint)argireq("lb"), (MPI_Aint)argireq("extent"), &nt);
    else if (!strcmp(k, "dup")) e = PMPI_Type_dup(base, &nt);
    else die("unknown type kind");
    if (!e) e = PMPI_Type_commit(&nt);
    if (T[s] != MPI_DATATYPE_NULL && argi("keep", 0) == 0) { /* overwrite silently */ }
    T[s] = nt;
    MPI_Aint lb = 0, ext = 0; int sz = 0; if (!e) { PMPI_Type_get_extent(nt, &lb, &ext); PMPI_Type_size(nt, &sz); }
    logf_("R %d type err=%d size=%d lb=%lld extent=%lld\n", g_line, e, sz, (long long)lb, (long long)ext);
}

static void op_misc(const char *op)
{
    if (!strcmp(op, "barrier")) { PMPI_Barrier(MPI_COMM_WORLD); logf_("R %d barrier\n", g_line); }
    else if (!strcmp(op, "setenv")) { char *v = argstr("val"); setenv(argreq("key"), v, 1); free(v); logf_("R %d setenv\n", g_line); }
    else if (!strcmp(op, "unsetenv")) { unsetenv(argreq("key")); logf_("R %d unsetenv\n", g_line); }
    else if (!strcmp(op, "fault")) {
        static const struct { const char *n; int c; } cls[] = { {"IO", MPI_ERR_IO}, {"NO_SPACE", MPI_ERR_NO_SPACE}, {"QUOTA", MPI_ERR_QUOTA},
            {"ACCESS", MPI_ERR_ACCESS}, {"READ_ONLY", MPI_ERR_READ_ONLY}, {"FILE", MPI_ERR_FILE}, {"OTHER", MPI_ERR_OTHER},
            {"BAD_FILE", MPI_ERR_BAD_FILE}, {"NO_SUCH_FILE", MPI_ERR_NO_SUCH_FILE}, {"FILE_IN_USE", MPI_ERR_FILE_IN_USE},
            {"UNSUPPORTED_OPERATION", MPI_ERR_UNSUPPORTED_OPERATION}, {"AMODE", MPI_ERR_AMODE}, {"NOT_SAME", MPI_ERR_NOT_SAME}, {NULL, 0} };
        shim.fault_ord = argi("ord", -1); shim.fault_class = MPI_ERR_IO; shim.fault_sticky = (int)argi("sticky", 0);
        const char *cn = arg("class");
        if (cn) { int found = 0; for (int i = 0; cls[i].n; i++) if (!strcmp(cls[i].n, cn)) { shim.fault_class = cls[i].c; found = 1; }
                  if (!found) shim.fault_class = (int)strtol(cn, NULL, 0); }
        if (argi("relative", 0) && shim.fault_ord >= 0) shim.fault_ord += shim_io_ord;
        logf_("R %d fault ord=%ld class=%d\n", g_line, shim.fault_ord, shim.fault_class);
    }
    else if (!strcmp(op, "faultsync")) {
        /* all ranks: has an injected fault fired anywhere?  If so the run ends here: what follows a failed call is the
         * application's business, the property only speaks about the failed call itself. */
        long f = shim.fault_fired, g = 0; PMPI_Allreduce(&f, &g, 1, MPI_LONG, MPI_MAX, MPI_COMM_WORLD);
        logf_("R %d faultsync fired=%ld\n", g_line, g);
        if (g > 0) { logf_("E 0 end-after-fault\n"); fclose(g_log); g_log = NULL; PMPI_Barrier(MPI_COMM_WORLD); _exit(0); }
    }
    else if (!strcmp(op, "delay")) { shim.delay_state = (unsigned)(argi("seed", 0) * 2654435761u + g_rank * 40503u + 1); shim.delay_max_us = (int)argi("max_us", 0);
        if (argi("seed", 0) == 0) shim.delay_state = 0; logf_("R %d delay\n", g_line); }
    else if (!strcmp(op, "shortwrite")) { shim.short_write = (int)argi("min", 16); logf_("R %d shortwrite fired=%ld\n", g_line, shim.short_fired); }
    else if (!strcmp(op, "p2plog")) { shim.log_p2p = (int)argi("on", 1); logf_("R %d p2plog\n", g_line); }
    else if (!strcmp(op, "balance")) {
        MPI_Offset ms = -1; int e = ncmpi_inq_malloc_size(&ms);
        logf_("R %d balance final=%d types=%ld comms=%ld infos=%ld files=%ld tot=%ld,%ld,%ld,%ld malloc=%lld mallocerr=%d io=%ld fired=%ld\n", g_line, (int)argi("final", 0),
              shim_bal[0], shim_bal[1], shim_bal[2], shim_bal[3], shim_tot[0], shim_tot[1], shim_tot[2], shim_tot[3], (long long)ms, e, shim_io_ord, shim.fault_fired);
        if (ms > 0 && argi("list", 0)) ncmpi_inq_malloc_list();
    }
    else if (!strcmp(op, "hits")) {
        fprintf(g_log, "R %d hits", g_line);
        if (&ncmpi_verif_nhits && ncmpi_verif_hits) for (int i = 0; i < ncmpi_verif_nhits; i++)
            fprintf(g_log, " %s=%ld", ncmpi_verif_hit_names[i], ncmpi_verif_hits[i]);
        logf_("\n");
    }
    else if (!strcmp(op, "walk")) {
        char msg[1024]; msg[0] = 0; int e = -9999;
        if (ncmpi_verif_walk) e = ncmpi_verif_walk(get_ncid(), (int)argi("strict", 0), msg, sizeof(msg));
        for (char *c = msg; *c; c++) if (*c == ' ' || *c == '\n') *c = '_';
        logf_("R %d walk err=%d msg=%s\n", g_line, e, msg[0] ? msg : "-");
    }
    else if (!strcmp(op, "set_default_format")) { int old = -1; int e = ncmpi_set_default_format((int)argireq("fmt"), &old); logf_("R %d set_default_format err=%d old=%d\n", g_line, e, old); }
    else if (!strcmp(op, "typefree")) { int s = (int)argireq("t"); if (T[s] != MPI_DATATYPE_NULL) PMPI_Type_free(&T[s]); logf_("R %d typefree\n", g_line); }
    else if (!strcmp(op, "strerror")) { int c = (int)argireq("code"); const char *s = ncmpi_strerrno(c); logf_("R %d strerror name=%s\n", g_line, s ? s : "-"); }
    else if (!strcmp(op, "sleep")) { usleep((useconds_t)argi("us", 1000)); logf_("R %d sleep\n", g_line); }
    else die("unknown op %s", op);
}

static int in_ranks(const char *spec)
{
    if (spec[0] == '*') return 1;
    const char *p = spec;
    while (*p) { char *e; long r = strtol(p, &e, 10); if (r == g_rank) return 1; p = (*e == ',') ? e + 1 : e; if (e == p && *e) break; }
    return 0;
}

static void auto_walk(const char *op)
{
    if (g_walk < 0) { const char *e = getenv("VERIF_WALK"); g_walk = (e && !strcmp(e, "0")) ? 0 : 1; }
    if (!g_walk || !ncmpi_verif_walk) return;
    for (int s = 0; s < NF; s++) {
        if (F[s] < 0) continue;
        char msg[1024]; msg[0] = 0;
        int e = ncmpi_verif_walk(F[s], !Ftaint[s], msg, sizeof(msg));
        g_nwalks++;
        if (e == 1) {
            for (char *c = msg; *c; c++) if (*c == ' ' || *c == '\n') *c = '_';
            logf_("W %d walk f=%d after=%s msg=%s\n", g_line, s, op, msg);
        }
    }
}

int main(int argc, char **argv)
{
    PMPI_Init(&argc, &argv);
    PMPI_Comm_rank(MPI_COMM_WORLD, &g_rank); PMPI_Comm_size(MPI_COMM_WORLD, &g_nprocs);
    if (argc < 3) { fprintf(stderr, "usage: pncdrv script outdir\n"); PMPI_Abort(MPI_COMM_WORLD, 3); }
    g_outdir = argv[2];
    char lp[4096]; snprintf(lp, sizeof(lp), "%s/log.%d", g_outdir, g_rank);
    g_log = fopen(lp, "w"); if (!g_log) { perror(lp); PMPI_Abort(MPI_COMM_WORLD, 3); }
    setvbuf(g_log, NULL, _IOFBF, 1 << 16);
    for (int i = 0; i < NF; i++) F[i] = -1;
    for (int i = 0; i < NT; i++) T[i] = MPI_DATATYPE_NULL;
    for (int i = 0; i < NR; i++) R[i] = NC_REQ_NULL;
    FILE *sf = fopen(argv[1], "r"); if (!sf) { perror(argv[1]); PMPI_Abort(MPI_COMM_WORLD, 3); }
    char *line = NULL; size_t cap = 0; ssize_t len; int lineno = 0;
    logf_("B 0 start rank=%d nprocs=%d\n", g_rank, g_nprocs);
    while ((len = getline(&line, &cap, sf)) > 0) {
        lineno++;
        while (len > 0 && (line[len-1] == '\n' || line[len-1] == '\r')) line[--len] = 0;
        if (len == 0 || line[0] == '#') continue;
        char *save = NULL; char *rk = strtok_r(line, " ", &save); if (!rk) continue;
        char *op = strtok_r(NULL, " ", &save); if (!op) continue;
        if (!in_ranks(rk)) continue;
        nargs = 0;
        for (char *t = strtok_r(NULL, " ", &save); t && nargs < MAXARG; t = strtok_r(NULL, " ", &save)) {
            char *eq = strchr(t, '='); if (!eq) { g_line = lineno; die("bad token %s", t); }
            *eq = 0; akey[nargs] = t; aval[nargs] = eq + 1; nargs++;
        }
        g_line = lineno;
        if (!strcmp(op, "end")) break;
        logf_("C %d %s\n", g_line, op);
        if (!strcmp(op, "create") || !strcmp(op, "open")) op_create_open(op);
        else if (!strcmp(op, "def_dim") || !strcmp(op, "def_var") || !strcmp(op, "def_var_fill") || !strncmp(op, "rename_", 7)
                 || !strcmp(op, "del_att") || !strcmp(op, "copy_att")) op_def(op);
        else if (!strcmp(op, "put_att") || !strcmp(op, "get_att")) op_att(op);
        else if (!strcmp(op, "put") || !strcmp(op, "get") || !strcmp(op, "iput") || !strcmp(op, "iget") || !strcmp(op, "bput")) op_var(op);
        else if (!strcmp(op, "wait") || !strcmp(op, "cancel")) op_wait(op);
        else if (!strcmp(op, "chkbuf") || !strcmp(op, "dumpbuf")) op_bufs(op);
        else if (!strcmp(op, "sweep")) op_sweep();
        else if (!strcmp(op, "readsome")) op_readsome();
        else if (!strcmp(op, "inq")) op_inq();
        else if (!strcmp(op, "type")) op_type();
        else if (!strcmp(op, "snapshot") || !strcmp(op, "filehash") || !strcmp(op, "fsnap") || !strcmp(op, "fdiff") || !strcmp(op, "pread")
                 || !strcmp(op, "prefill") || !strcmp(op, "unlink") || !strcmp(op, "delete") || !strcmp(op, "listdir")) op_file(op);
        else if (!strcmp(op, "close") || !strcmp(op, "abort") || !strcmp(op, "redef") || !strcmp(op, "enddef") || !strcmp(op, "_enddef")
                 || !strcmp(op, "begin_indep") || !strcmp(op, "end_indep") || !strcmp(op, "sync") || !strcmp(op, "sync_numrecs")
                 || !strcmp(op, "flush") || !strcmp(op, "sync3") || !strcmp(op, "attach") || !strcmp(op, "detach")
                 || !strcmp(op, "fill_var_rec") || !strcmp(op, "set_fill")) op_simple(op);
        else op_misc(op);
        auto_walk(op);
        g_line = 0;
    }
    logf_("E 0 end walks=%ld shortw=%ld\n", g_nwalks, shim.short_fired);
    fclose(g_log); g_log = NULL;
    for (int i = 0; i < NT; i++) if (T[i] != MPI_DATATYPE_NULL) PMPI_Type_free(&T[i]);
    PMPI_Finalize();
    return 0;
}
