#!/usr/bin/env python3-vt
"""tools/romio_selftest.py [ncases] [seed] -- environment self-test, not a property check.

PnetCDF hands the caller's derived buffer datatype straight to MPI_File_write/read_at(_all) when neither type
conversion nor byte swap is needed (1-byte external types).  Open MPI 4.1.4's ROMIO mis-flattens some nested
datatypes (first seen: indexed(bl=2,1) over resized(schar, extent 2) -> elements taken at multiples of the
type extent).  This tool drives random derived types of depth 1-3 through that pass-through path on an
NC_BYTE variable (1 and 2 ranks, collective and independent) and prints the type recipes the MPI-IO layer
gets wrong, so that the generators can stay inside what the installed MPI-IO library handles correctly.
"""
import os, sys, random, collections
sys.path.insert(0, os.path.join(os.path.dirname(os.path.abspath(__file__)), ".."))
from pnv import runner
from pnv.runner import Case
from pnv.dataprog import Prog
from pnv.model import random_td, check_expectations, TD
from pnv import cdfspec as cs


def chain(td):
    out = []
    while td is not None and td.kind != "prim":
        out.append("%s%s" % (td.kind, {k: v for k, v in td.args.items()}))
        td = td.base
    return " <- ".join(out)


def gen(rng, i, nprocs):
    p = Prog(rng, nprocs, "@OUT@/t.nc", version=1, info="nc_ibuf_size:1")
    p.create()
    d = p.def_dim(b"x", 64)
    d2 = p.def_dim(b"y", 3)
    p.def_var(b"v", cs.NC_BYTE, [d, d2])
    p.enddef()
    tds = {}
    for k in range(12):
        td = random_td(rng, "schar", depth=rng.choice([1, 2, 2, 3]), passthrough_safe=bool(os.environ.get("SAFE")))
        if k == 0 and os.environ.get("FIRST"):
            td = TD.prim_("schar").resized(2).indexed([2, 1], [0, 4])
        per = len(td.tm)
        if per == 0 or per > 32:
            continue
        cnt = 1 if (k == 0 and os.environ.get("FIRST")) else rng.randint(1, max(1, 32 // per))
        n = per * cnt
        st = rng.randint(0, 64 - n)
        coll = rng.random() < 0.6
        if not coll:
            p.begin_indep()
        for r in range(nprocs):
            if r == 0:
                line, _ = p.one_access("put", 0, 0, [st, 1], [n, 1], [1, 1], coll, form="vara", mt="flex", td=td)
            elif coll:
                p.one_access("put", r, 0, [0, 0], [0, 0], [1, 1], True, form="vara", mt="schar")
        if not coll:
            p.end_indep()
        p.sync3()
        for r in range(nprocs):
            l2, _ = p.one_access("get", r, 0, [st, 1], [n, 1], [1, 1], True, form="vara", mt="schar")
            tds[(r, l2)] = (td, "write", coll)
        # read through the derived type as well
        td2 = random_td(rng, "schar", depth=rng.choice([1, 2, 2, 3]), passthrough_safe=bool(os.environ.get("SAFE")))
        per2 = len(td2.tm)
        if 0 < per2 <= 32:
            n2 = per2 * rng.randint(1, max(1, 32 // per2))
            st2 = rng.randint(0, 64 - n2)
            for r in range(nprocs):
                if r == 0:
                    l3, _ = p.one_access("get", 0, 0, [st2, 2], [n2, 1], [1, 1], True, form="vara", mt="flex", td=td2)
                    tds[(0, l3)] = (td2, "read", True)
                else:
                    p.one_access("get", r, 0, [0, 0], [0, 0], [1, 1], True, form="vara", mt="schar")
    p.close()
    return Case("rs_%04d" % i, nprocs, p.s.lines, meta={"expect": p.expect, "tds": tds})


def main():
    n = int(sys.argv[1]) if len(sys.argv) > 1 else 200
    rng = random.Random(int(sys.argv[2]) if len(sys.argv) > 2 else 1)
    bld = os.environ.get("VERIF_BUILD") or "/var/tmp/pnc-verif/san"
    cases = [gen(rng, i, rng.choice([1, 2])) for i in range(n)]
    res = runner.run_cases(cases, bld, "/dev/shm/pnc-verif/romio-selftest")
    bad = collections.Counter()
    ok = collections.Counter()
    for r in res:
        viol = check_expectations(r, r.case.meta["expect"])
        badlines = set()
        for v in viol:
            for (rank, line), (td, what, coll) in r.case.meta["tds"].items():
                if "line %d " % line in v.msg:
                    badlines.add((rank, line))
        for key, (td, what, coll) in r.case.meta["tds"].items():
            sig = (what, chain(td))
            (bad if key in badlines else ok)[sig] += 1
    kinds = collections.Counter()
    for (what, ch), c in sorted(bad.items()):
        print("WRONG %-5s %s" % (what, ch))
        kinds[(what, " <- ".join(x.split("{")[0] for x in ch.split(" <- ")))] += c
    print("---- wrong by constructor chain")
    for k, c in sorted(kinds.items()):
        print(c, k)
    print("violations:", sum(len(check_expectations(r, r.case.meta["expect"])) for r in res))
    print("types exercised: %d ok, %d wrong" % (sum(ok.values()), sum(bad.values())))


if __name__ == "__main__":
    main()
