#!/usr/bin/env python3
"""regenerates MANIFEST.json from the table below (keeps it valid at all times)"""
import json, os, subprocess
V = os.path.dirname(os.path.dirname(os.path.abspath(__file__)))
props = {json.loads(l)["id"]: json.loads(l) for l in open(os.path.join(V, "properties.jsonl"))}
TB = ("trusted: Open MPI 4.1.4 + ROMIO (io=romio321; ompio corrupts holes/overlapping collective reads, DESIGN 8), the PMPI shim and "
      "driver in /verif/driver, the Python reference models in /verif/pnv; held-on-observed executions only")
CHECKS = {
 "C01": ("exploration", "runtime monitoring: generated programs on real library (ASan+UBSan) + data-model oracle + independent CDF decoder",
         "random blocking put/get programs over all access forms, memory types, derived buffer types and decompositions on 1-4 (quick) / 1-8 (thorough) ranks; every get buffer and the raw final file are compared with an executable data model", "4 C01"),
 "C02": ("exploration", "runtime monitoring: pending-request model + blocking-semantics data model over recorded wait/cancel histories",
         "random multisets of iput/iget/bput completed by random partitions into wait_all/wait/cancel; statuses, ids, inq_nreqs, buffers and the final file checked against the model", "4 C02"),
 "C03": ("exploration", "runtime monitoring: snapshots of the file at every up-to-date point decoded by an independent CDF-1/2/5 codec + layout invariants + inquiry reports",
         "random schemas (UTF-8 names, all attribute types/lengths), hints and __enddef arguments, writes, syncs, data-mode updates, redefinitions, clobbered predecessors; every snapshot is decoded strictly and compared with the model; header size/extent, offsets, recsize reports compared with the bytes", "4 C03"),
 "C04": ("exploration", "runtime monitoring: files from an independent encoder (layouts PnetCDF never writes, multi-chunk headers) opened and fully inquired/read",
         "spec-valid files with arbitrary gaps, stale (also plausible 4-aligned too-large) / saturated vsize, garbage fillers, any dimension order, headers across the 256 KiB read-chunk boundary (boundary sweep in steps of 4); all inquiries and reads compared with the encoded content on 1-4 ranks under random hints", "4 C04"),
 "C05": ("exploration", "runtime monitoring: per-rank record-count model probed after every call + header bytes read from disk at sync points",
         "histories of collective/independent/nonblocking record writes with syncs, redefinitions and delays on 2-6 ranks; the unlimited dimension length is read on every rank after every step", "4 C05"),
 "C07": ("exploration", "runtime monitoring: sequential metadata model; full sweeps (by id and by name) after operations; header decode after data-mode updates",
         "sequences of 25-50 define/put_att/rename/copy/delete operations with colliding, UTF-8, NFC/NFD and long names in define and data mode under tiny hash tables; sweeps and raw headers compared with the model", "4 C07"),
 "C08": ("exploration", "runtime monitoring: PMPI shim records the per-rank sequence of MPI collectives inside each API call; sequences compared across ranks",
         "every rank of a collective put/get plays a role (valid, zero-length, six kinds of invalid argument); all role pairs enumerated on 2 ranks; safe mode, aggregation and delays varied", "4 C08"),
 "C06": ("exploration", "runtime monitoring: data model + independent decode after every redefinition; file hash around aborted redefinitions",
         "completely filled base layouts, 1-4 redefinitions (attributes small..70 KB, new fixed/record variables, alignment/minfree), every element re-read on every rank after each enddef and decoded from the raw file; aborts compared by file hash", "4 C06"),
 "C09": ("exploration", "runtime monitoring: exact reference conversion (Python integers / IEEE) against stored bytes and returned buffers; exhaustive for 8/16-bit sources",
         "all external x memory type pairs in CDF-1 and CDF-5, write direction (raw bytes read back) and read direction (encoder-made files), variables and attributes; every value of the 8- and 16-bit types, dense boundary sets for wider types; NC_ERANGE iff, fill substitution, NC_ECHAR, byte/uchar exemption", "4 C09"),
 "C10": ("exploration", "runtime monitoring: differential execution of one global program under K configurations + data model + logical dump",
         "decomposition-independent programs rendered under random hint/process-count/mode configurations (plus stride-stress programs under aggregation / nonblocking execution); read buffers, return codes and the logical dump of the final files must agree; reported alignment hints checked against real offsets", "4 C10"),
 "C12": ("exploration", "runtime monitoring: differential run burst-buffer driver vs default driver + data model + log-directory listing",
         "random put/iput/get programs executed under nc_burst_buf=enable (various flush-buffer sizes, shared logs, retention) and under the default driver; own-write reads, visibility after flush points, record counts, final logical dump and log clean-up checked", "4 C12"),
 "C13": ("exploration", "runtime monitoring: pristine-copy comparison of every write buffer, sentinel+guard zones on read buffers, attached-buffer ledger",
         "histories of attach/bput/iput/iget/wait/cancel/detach across the in-place-swap threshold, swap hints and the intra-node aggregation hint; buffers compared byte-for-byte after every completing call; inq_buffer_usage against pending-bytes ledger; NC_EINSUFFBUF probes", "4 C13"),
 "C14": ("exploration", "runtime monitoring: reference mode automaton; complete enumeration of mode-call sequences to depth 3/4 with ~55 probes per state",
         "every sequence of enddef/redef/begin_indep/end_indep/reopen rw/ro from created, opened-rw, opened-ro; probe battery from every API family after each step; return codes compared with the automaton, rejected calls must leave mode and metadata unchanged", "4 C14"),
 "C15": ("exploration", "runtime monitoring: reference predicate for error codes + in-process byte diff of the whole file around every request",
         "near-exhaustive (start,count,stride) tuples in and beyond small 1-2 dimensional shapes through all request forms; rejected/zero/read requests must change no byte, accepted puts only bytes of addressed elements and numrecs; flexible requests whose buffer description (bufcount x derived type) has too many or too few elements must return NC_EIOMISMATCH and change nothing", "4 C15"),
 "C16": ("exploration", "runtime monitoring: fill-aware data model (mask = written or filled) + independent decode",
         "random fill settings (set_fill, def_var_fill, _FillValue), partial writes, redefinitions adding filled/unfilled variables over existing records, fill_var_rec; every variable re-read on every rank after each step", "4 C16"),
 "C11": ("fault_enumeration", "fault enumeration: PMPI shim fails every MPI-IO data-transfer call (rank x ordinal x error class) of 12 programs",
         "complete enumeration of single MPI-IO faults over the listed programs on 2 ranks; oracle: enclosing call returns an error on the faulted rank and all ranks return", "4 C11"),
 "C17": ("exploration", "runtime monitoring: handle model over open/close/abort histories; end-of-run heap ledger (ncmpi_inq_malloc_size) and PMPI object balance",
         "histories over up to 6 open files with stale/negative/huge ids, pending requests at close/abort, 1024 simultaneously open files (+1 refused), FIFO churn; NC_EBADID/NC_ENFILE/NC_EPENDING, id reuse, isolation, zero heap and zero library-created MPI objects after the last close", "4 C17"),
 "C18": ("exploration", "runtime monitoring: rule table for format limits vs def_dim/enddef results; sparse-file accesses across 2^31/2^32 verified by raw pread",
         "dimension lengths and variable-size combinations around every threshold in all formats; single elements on both sides of 2 GiB / 4 GiB written through all forms (incl. out-of-order nonblocking) and read back via API and raw file offset", "4 C18"),
 "C19": ("exploration", "sanitizers (ASan+UBSan, fatal) on every workload + malformed-input campaign (truncations, dictionary word substitution, multi-field corruption) with logical resource bounds",
         "every header word x dictionary of extremes, every truncation, random corruptions of seed files in three formats, and well-formed files with one over-long name (257-4096 bytes), opened on 1-2 ranks; no sanitizer report/abort/hang, NC error or self-consistent inquiries, header fetch count and peak heap bounded by file size", "4 C19"),
 "C20": ("exploration", "runtime monitoring of the utilities (sanitizer build) against the independent codec: accept/reject, same/different verdicts, parsed dumps, round trip",
         "ncvalidator on library-written, valid and single-violation files; cdfdiff/ncmpidiff (1-4 ranks) on re-layouts and single logical edits; ncmpidump/ncoffsets output parsed and compared with the decode; ncmpigen round trip", "4 C20"),
}
checks = []
for pid, (lvl, tech, text, ref) in sorted(CHECKS.items()):
    checks.append({"property_id": pid, "quick_cmd": "./check %s --tier quick" % pid, "thorough_cmd": "./check %s --tier thorough" % pid,
                   "evidence_file": "evidence/%s.json" % pid, "replay_cmd_template": "./check %s --replay {path}" % pid, "engine": "pnv",
                   "level_claimed": {"category": lvl, "text": text, "design_ref": "DESIGN.md section " + ref}, "level_note": TB, "technique": tech})
na = [{"property_id": pid, "reason": "no check registered"} for pid in sorted(props) if pid not in CHECKS]
hooks_commits = []
try:
    out = subprocess.run(["git", "-C", "/repo", "log", "--format=%H %s"], capture_output=True, text=True).stdout
    hooks_commits = [l.split(" ")[0] for l in out.splitlines() if " hook: " in l or l.split(" ", 1)[1].startswith("hook:")]
except Exception:
    pass
m = {"version": 1,
     "setup_cmd": "bin/vbuild san && python3-vt -m compileall -q pnv",
     "hooks": {"guard": "PNETCDF_VERIF", "enable": "bin/vbuild <variant> rsyncs /repo's working tree to /var/tmp/pnc-verif/<variant>, configures with CPPFLAGS='-DPNETCDF_VERIF -DPNC_MALLOC_TRACE' (san: gcc -fsanitize=address,undefined) and builds driver+shim against it",
               "baseline_off_cmd": "bin/baseline_off", "source_commits": hooks_commits, "add_only": True},
     "engines": [{"name": "pnv", "path": "pnv/", "serves_properties": sorted(CHECKS), "kind_free_text": "script generators + C driver (driver/pncdrv.c) + PMPI shim (driver/shim.c) + offline Python oracles"}],
     "checks": checks, "not_applicable": na,
     "notes": "exit 0 held on everything explored, 1 VIOLATION lines, 2 harness failure/inconclusive. known_findings.json lists genuine defects recorded or repaired."}
json.dump(m, open(os.path.join(V, "MANIFEST.json"), "w"), indent=1)
print("checks:", len(checks), "not_applicable:", len(na))
