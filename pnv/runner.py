"""runner -- builds the monitored library, executes case scripts under mpiexec with the
PMPI shim and the sanitizers, parses the per-rank event logs."""
import os, sys, subprocess, shutil, glob, time, signal, re, json
from concurrent.futures import ThreadPoolExecutor

VERIF = os.path.dirname(os.path.dirname(os.path.abspath(__file__)))
RUNROOT = os.environ.get("VERIF_RUN_ROOT", "/dev/shm/pnc-verif")


class HarnessError(Exception):
    pass


def build(variant="san"):
    r = subprocess.run([os.path.join(VERIF, "bin", "vbuild"), variant], stdout=subprocess.PIPE, stderr=subprocess.PIPE, text=True)
    if r.returncode != 0:
        raise HarnessError("build failed:\n" + r.stderr[-3000:])
    return r.stdout.strip().splitlines()[-1]


class Event:
    __slots__ = ("kind", "line", "op", "kv", "raw")

    def __init__(self, kind, line, op, kv, raw):
        self.kind, self.line, self.op, self.kv, self.raw = kind, line, op, kv, raw

    def get(self, k, d=None):
        return self.kv.get(k, d)

    def geti(self, k, d=None):
        v = self.kv.get(k)
        return int(v) if v is not None and v != '' else d

    def ints(self, k):
        v = self.kv.get(k, "")
        return [int(x) for x in v.split(",")] if v not in ("", "-") else []

    def hexb(self, k="hex"):
        v = self.kv.get(k)
        return bytes.fromhex(v) if v is not None else None

    def __repr__(self):
        return self.raw if len(self.raw) < 300 else self.raw[:300] + "..."


def parse_log(path):
    evs = []
    try:
        with open(path, "r", errors="replace") as f:
            for ln in f:
                ln = ln.rstrip("\n")
                p = ln.split(" ")
                if len(p) < 2 or p[0] not in "CRMSBEXW":
                    continue
                try:
                    line = int(p[1])
                except ValueError:
                    continue
                op = p[2] if len(p) > 2 else ""
                kv = {}
                for t in p[3:]:
                    i = t.find("=")
                    if i > 0:
                        kv[t[:i]] = t[i + 1:]
                evs.append(Event(p[0], line, op, kv, ln))
    except FileNotFoundError:
        pass
    return evs


class Case:
    def __init__(self, name, nprocs, lines, env=None, meta=None, timeout=120):
        self.name, self.nprocs, self.lines = name, nprocs, lines
        self.env = env or {}
        self.meta = meta or {}
        self.timeout = timeout
        self.files = {}         # relative path -> bytes, written into the case directory before the run

    def script_text(self):
        return "\n".join(self.lines) + "\n"


class Result:
    def __init__(self, case, outdir):
        self.case, self.outdir = case, outdir
        self.rc = None
        self.timed_out = False
        self.logs = []          # per rank: list[Event]
        self.san = []           # sanitizer report texts
        self.stderr = ""
        self.stderr_full = ""
        self.wall = 0.0

    def logs_nonempty(self):
        return any(self.logs)

    # -- convenience views
    def ret(self, rank):
        """{line: R-event} for rank"""
        return {e.line: e for e in self.logs[rank] if e.kind == "R"}

    def open_calls(self):
        """per rank: the C event that never returned (or None)"""
        out = []
        for evs in self.logs:
            last_c = None
            for e in evs:
                if e.kind == "C":
                    last_c = e
                elif e.kind == "R" and last_c is not None and e.line == last_c.line:
                    last_c = None
            done = any(e.kind == "E" for e in evs)
            out.append(None if done else last_c)
        return out

    def finished(self):
        return all(any(e.kind == "E" for e in evs) for evs in self.logs) and len(self.logs) == self.case.nprocs

    def mpi_events(self, rank, line=None):
        return [e for e in self.logs[rank] if e.kind == "M" and (line is None or e.line == line)]


MPIEXEC = ["mpiexec", "--oversubscribe", "--mca", "io", "romio321", "--mca", "btl", "self,vader", "--mca", "mpi_yield_when_idle", "1"]


def run_case(case, bld, workdir, keep=False, extra_env=None):
    """one case; a launch that fails because the driver binary is being relinked by a concurrent bin/vbuild is a
    harness hiccup, not an observation: wait for the build lock and launch again"""
    for attempt in range(4):
        res = _run_case(case, bld, workdir, keep, extra_env)
        if res.rc not in (0, None) and not res.logs_nonempty() and "could not access\nor execute an executable" in (res.stderr_full or ""):
            try:
                import fcntl
                with open(bld + ".lock", "a") as lf:
                    fcntl.flock(lf, fcntl.LOCK_SH)
            except OSError:
                pass
            time.sleep(1 + attempt)
            continue
        break
    return res


def _run_case(case, bld, workdir, keep=False, extra_env=None):
    outdir = os.path.join(workdir, case.name)
    shutil.rmtree(outdir, ignore_errors=True)
    os.makedirs(outdir)
    for d in (case.env.get("VERIF_MKDIR") or "").split(","):
        if d:
            os.makedirs(os.path.join(outdir, d), exist_ok=True)
    for rel, content in (getattr(case, "files", None) or {}).items():
        with open(os.path.join(outdir, rel), "wb") as f:
            f.write(content)
    tmpd = os.path.join(outdir, "t")
    os.makedirs(tmpd, exist_ok=True)
    spath = os.path.join(outdir, "script")
    with open(spath, "w") as f:
        f.write(case.script_text().replace("@OUT@", outdir))
    env = dict(os.environ)
    env.update({"OMPI_ALLOW_RUN_AS_ROOT": "1", "OMPI_ALLOW_RUN_AS_ROOT_CONFIRM": "1",
                "ASAN_OPTIONS": "detect_leaks=0:abort_on_error=1:log_path=%s/asan:allocator_may_return_null=1:max_allocation_size_mb=2048" % outdir,
                "UBSAN_OPTIONS": "print_stacktrace=1:halt_on_error=1:log_path=%s/ubsan" % outdir,
                "OMPI_MCA_rmaps_base_oversubscribe": "1", "TMPDIR": tmpd,
                # ROMIO's write data sieving is a read-modify-write of whole file ranges: it puts read-back garbage into
                # never-written gaps and loses a concurrent independent write of another rank to a neighbouring element
                # (both reproduced without PnetCDF).  It is switched off for every run through ROMIO's system hints file.
                "ROMIO_HINTS": os.path.join(VERIF, "driver", "romio_hints.txt"),
                # session directory and shared-memory segments live inside the case directory, so that a case killed by
                # the watchdog leaves nothing behind in /dev/shm once its directory is removed
                "OMPI_MCA_btl_vader_backing_directory": tmpd, "OMPI_MCA_orte_tmpdir_base": tmpd})
    for k in ("PNETCDF_SAFE_MODE", "PNETCDF_HINTS", "PNETCDF_VERBOSE_DEBUG_MODE"):
        env.pop(k, None)
    env.update(case.env)
    if extra_env:
        env.update(extra_env)
    cmd = MPIEXEC + ["-n", str(case.nprocs), os.path.join(bld, "verif-bin", "pncdrv"), spath, outdir]
    res = Result(case, outdir)
    t0 = time.time()
    p = subprocess.Popen(cmd, stdout=subprocess.PIPE, stderr=subprocess.PIPE, env=env, cwd=outdir, start_new_session=True)
    try:
        so, se = p.communicate(timeout=case.timeout)
    except subprocess.TimeoutExpired:
        res.timed_out = True
        try:
            os.killpg(p.pid, signal.SIGKILL)
        except ProcessLookupError:
            pass
        so, se = p.communicate()
    res.wall = time.time() - t0
    res.rc = p.returncode
    res.stderr = (se or b"").decode(errors="replace")[-6000:]
    for r in range(case.nprocs):
        res.logs.append(parse_log(os.path.join(outdir, "log.%d" % r)))
    for fn in sorted(glob.glob(os.path.join(outdir, "asan.*")) + glob.glob(os.path.join(outdir, "ubsan.*"))):
        try:
            res.san.append(open(fn, errors="replace").read()[:20000])
        except OSError:
            pass
    full_err = (se or b"").decode(errors="replace")
    res.stderr_full = full_err[:200000]
    # UBSan reports (alignment is built recoverable so that the run continues) arrive on stderr, one block each
    blocks, cur = [], None
    for ln in full_err.split("\n"):
        if "runtime error:" in ln or "ERROR: AddressSanitizer" in ln:
            if cur:
                blocks.append("\n".join(cur))
            cur = [ln]
        elif cur is not None:
            if ln.startswith(" ") or ln.startswith("0x") or ln.startswith("#") or ln.startswith("=="):
                if len(cur) < 60:
                    cur.append(ln)
            else:
                blocks.append("\n".join(cur))
                cur = None
    if cur:
        blocks.append("\n".join(cur))
    # one report per source location: several ranks (and the log file + stderr) repeat the same report, sometimes with the
    # stack cut off by interleaved output -- keep the most complete block per "file:line:col: runtime error" header
    def header(t):
        m = re.search(r"([\w./-]+:\d+:\d+): runtime error", t)
        return m.group(1) if m else t[:80]
    best = {}
    for t in list(res.san) + blocks:
        h = header(t)
        if h not in best or (t.count("#") > best[h].count("#")):
            best[h] = t
    res.san = [t[:6000] for t in best.values()]
    return res


def run_cases(cases, bld, workdir, jobs=None, progress=None):
    """runs all cases, at most 16 ranks busy at a time.  Returns results in order."""
    if not cases:
        return []
    maxp = max(c.nprocs for c in cases)
    jobs = jobs or max(1, int(os.environ.get("VERIF_JOBS", "16")) // max(1, maxp))
    os.makedirs(workdir, exist_ok=True)
    with ThreadPoolExecutor(max_workers=jobs) as ex:
        results = list(ex.map(lambda c: run_case(c, bld, workdir), cases))
    # a watchdog firing is only a trigger: re-run the suspects (alone if they fail again)
    reruns = int(os.environ.get("VERIF_RERUNS", "2"))
    sus = [i for i, r in enumerate(results) if r.timed_out]
    if sus and reruns >= 1:
        with ThreadPoolExecutor(max_workers=max(1, jobs // 2)) as ex:
            again = list(ex.map(lambda i: run_case(results[i].case, bld, workdir), sus))
        for i, r2 in zip(sus, again):
            results[i] = r2
        if reruns >= 2:
            for i in sus:
                if results[i].timed_out:
                    results[i] = run_case(results[i].case, bld, workdir)
    return results


def san_key(text, context=""):
    """stable key of a sanitizer report: kind + first PnetCDF frame (function, file)"""
    kind = "unknown"
    if "AddressSanitizer failed to allocate" in text and "ERROR: AddressSanitizer" not in text:
        return "alloc|huge-allocation-refused"
    m = re.search(r"ERROR: AddressSanitizer: ([\w-]+)", text)
    if m:
        kind = "asan:" + m.group(1)
    else:
        m = re.search(r"runtime error: ([^\n]{0,80})", text)
        if m:
            msg = re.sub(r"0x[0-9a-f]+|-?\d+(\.\d+)?(e[+-]?\d+)?", "N", m.group(1))
            kind = "ubsan:" + msg.strip()
    frame = "?"
    for m in re.finditer(r"#\d+ 0x[0-9a-f]+ in (\S+) (\S+)", text):
        fn, loc = m.group(1), m.group(2)
        if "/src/" in loc and "libsanitizer" not in loc and "/verif/driver" not in loc:
            frame = fn + "@" + os.path.basename(loc.split(":")[0])
            break
    else:
        m = re.search(r"(/[^\s:]+/src/[^\s:]+):(\d+):\d+: runtime error", text)
        if m:
            frame = os.path.basename(m.group(1))
    if frame == "?":
        m = re.search(r"([\w.]+\.[ch]):\d+:\d+: runtime error", text)
        if m:
            frame = m.group(1)
    via = ""
    m = re.search(r"#\d+ 0x[0-9a-f]+ in (ncbbio_log_flush_core|ncmpio_intra_node\w*)", text)
    if m:
        via = "|via=" + m.group(1)
    elif "#0 " not in text and context:
        # report printed without (or separated from) its stack by interleaved output of several ranks: use the run's
        # other reports of the same source line as context
        loc = re.search(r"([\w.]+\.c:\d+):\d+: runtime error", text)
        if loc:
            for blk in context.split("runtime error:"):
                pass
        m = re.search(r"in (ncbbio_log_flush_core)", context)
        if m and "ncx.c" in text:
            via = "|via=" + m.group(1)
    return kind + "|" + frame + via


def save_replay(check_id, res, why):
    d = os.path.join(os.environ.get("VERIF_REPLAY_DIR") or os.path.join(VERIF, "replays"), check_id)
    os.makedirs(d, exist_ok=True)
    p = os.path.join(d, res.case.name + ".script")
    with open(p, "w") as f:
        f.write(res.case.script_text())
    return p
