"""cdfspec -- encoder and strict decoder for the classic netCDF formats CDF-1/2/5,
written from the format specification (the BNF in the NetCDF User's Guide /
PnetCDF's CDF-5 description) only.  Shares no code with PnetCDF: it is the
independent oracle for everything the library writes to or reads from disk.

    header  = magic numrecs dim_list gatt_list var_list
    magic   = 'C' 'D' 'F' VERSION            VERSION = 1 | 2 | 5
    numrecs = NON_NEG | STREAMING            (4 bytes; 8 bytes in CDF-5)
    X_list  = ABSENT | TAG nelems [X ...]    ABSENT = ZERO(4) ZERO(nelems width)
    dim     = name NON_NEG
    name    = nelems namestring padding(to 4, zero bytes)
    attr    = name nc_type nelems [values ...] padding
    var     = name nelems [dimid ...] vatt_list nc_type vsize begin
    begin   = 4 bytes in CDF-1, 8 bytes in CDF-2/5 ; NON_NEG/nelems/dimid are
              4 bytes in CDF-1/2 and 8 bytes in CDF-5.
"""
import struct
import numpy as np

NC_DIMENSION, NC_VARIABLE, NC_ATTRIBUTE = 10, 11, 12
NC_BYTE, NC_CHAR, NC_SHORT, NC_INT, NC_FLOAT, NC_DOUBLE, NC_UBYTE, NC_USHORT, NC_UINT, NC_INT64, NC_UINT64 = range(1, 12)
XSZ = {1: 1, 2: 1, 3: 2, 4: 4, 5: 4, 6: 8, 7: 1, 8: 2, 9: 4, 10: 8, 11: 8}
BE = {1: 'i1', 2: 'u1', 3: '>i2', 4: '>i4', 5: '>f4', 6: '>f8', 7: 'u1', 8: '>u2', 9: '>u4', 10: '>i8', 11: '>u8'}
NATIVE = {1: 'i1', 2: 'u1', 3: '<i2', 4: '<i4', 5: '<f4', 6: '<f8', 7: 'u1', 8: '<u2', 9: '<u4', 10: '<i8', 11: '<u8'}
TYPENAME = {1: 'byte', 2: 'char', 3: 'short', 4: 'int', 5: 'float', 6: 'double', 7: 'ubyte', 8: 'ushort', 9: 'uint', 10: 'int64', 11: 'uint64'}
FILL = {1: -127, 2: 0, 3: -32767, 4: -2147483647, 5: 9.9692099683868690e+36, 6: 9.9692099683868690e+36,
        7: 255, 8: 65535, 9: 4294967295, 10: -9223372036854775806, 11: 18446744073709551614}
MAXTYPE = {1: 5 + 1, 2: 5 + 1, 5: 11}   # highest legal nc_type per version (classic: 1..6)


class FormatError(Exception):
    pass


def pad4(n):
    return (n + 3) & ~3


class Att:
    def __init__(self, name, xtype, values):
        self.name = name            # bytes
        self.xtype = xtype
        self.values = values        # bytes for NC_CHAR, else list/np array of numbers (length = nelems)

    @property
    def nelems(self):
        return len(self.values)

    def raw_be(self):
        if self.xtype == NC_CHAR:
            return bytes(self.values)
        return np.asarray(self.values).astype(BE[self.xtype]).tobytes()

    def key(self):
        return (self.name, self.xtype, self.raw_be())

    def __repr__(self):
        return "Att(%r,%s,%r)" % (self.name, TYPENAME.get(self.xtype, self.xtype), self.values if self.xtype == 2 else list(self.values))


class Var:
    def __init__(self, name, xtype, dimids, atts=None, begin=None, vsize=None):
        self.name, self.xtype, self.dimids = name, xtype, list(dimids)
        self.atts = atts or []
        self.begin, self.vsize = begin, vsize


class Schema:
    def __init__(self, version=1, numrecs=0, dims=None, gatts=None, vars=None):
        self.version = version
        self.numrecs = numrecs
        self.dims = dims or []      # list of [name(bytes), len]
        self.gatts = gatts or []
        self.vars = vars or []

    # ---- derived layout facts (spec rules) ----
    def unlimdim(self):
        for i, (n, l) in enumerate(self.dims):
            if l == 0:
                return i
        return -1

    def is_rec(self, v):
        return len(v.dimids) > 0 and self.dims[v.dimids[0]][1] == 0

    def shape(self, v):
        """fixed part of the shape (record dimension excluded)"""
        ds = v.dimids[1:] if self.is_rec(v) else v.dimids
        return [self.dims[d][1] for d in ds]

    def nelems_fixed(self, v):
        n = 1
        for s in self.shape(v):
            n *= s
        return n

    def vlen(self, v):
        """bytes of one record (rec var) or of the whole variable, unpadded"""
        return self.nelems_fixed(v) * XSZ[v.xtype]

    def vsize_spec(self, v):
        x = pad4(self.vlen(v))
        if self.version < 5 and x > 0xFFFFFFFF:
            x = 0xFFFFFFFF
        return x

    def recvars(self):
        return [v for v in self.vars if self.is_rec(v)]

    def recsize(self):
        rv = self.recvars()
        if len(rv) == 1:
            return self.vlen(rv[0])          # single record variable: no padding between records
        return sum(pad4(self.vlen(v)) for v in rv)


# ---------------------------------------------------------------- encoder
def _nn(version, x):
    return struct.pack('>q' if version == 5 else '>i', x) if x < (1 << 63 if version == 5 else 1 << 31) else struct.pack('>Q' if version == 5 else '>I', x)


def _name(version, name):
    return _nn(version, len(name)) + name + b'\0' * (pad4(len(name)) - len(name))


def _attlist(version, atts):
    if not atts:
        return struct.pack('>i', 0) + _nn(version, 0)
    out = struct.pack('>i', NC_ATTRIBUTE) + _nn(version, len(atts))
    for a in atts:
        raw = a.raw_be()
        out += _name(version, a.name) + struct.pack('>i', a.xtype) + _nn(version, a.nelems) + raw + b'\0' * (pad4(len(raw)) - len(raw))
    return out


def encode_header(s, vsize_override=None):
    v = s.version
    out = b'CDF' + bytes([v])
    out += _nn(v, s.numrecs)
    if s.dims:
        out += struct.pack('>i', NC_DIMENSION) + _nn(v, len(s.dims))
        for n, l in s.dims:
            out += _name(v, n) + _nn(v, l)
    else:
        out += struct.pack('>i', 0) + _nn(v, 0)
    out += _attlist(v, s.gatts)
    if s.vars:
        out += struct.pack('>i', NC_VARIABLE) + _nn(v, len(s.vars))
        for var in s.vars:
            out += _name(v, var.name) + _nn(v, len(var.dimids))
            for d in var.dimids:
                out += _nn(v, d)
            out += _attlist(v, var.atts)
            out += struct.pack('>i', var.xtype)
            vs = var.vsize if var.vsize is not None else s.vsize_spec(var)
            out += _nn(v, vs) if v == 5 else struct.pack('>I', vs)
            out += struct.pack('>i', var.begin) if v == 1 else struct.pack('>q', var.begin)
    else:
        out += struct.pack('>i', 0) + _nn(v, 0)
    return out


def header_len(s):
    t = Schema(s.version, 0, s.dims, s.gatts, [Var(x.name, x.xtype, x.dimids, x.atts, 0, 0) for x in s.vars])
    return len(encode_header(t))


def assign_begins(s, gap=lambda i: 0, first_gap=0, rec_gap=0):
    """lay variables out in definition order after the header: fixed first, then record
    variables; gap(i) extra (4-aligned) bytes before variable i"""
    off = pad4(header_len(s)) + first_gap
    for i, v in enumerate(s.vars):
        if not s.is_rec(v):
            off += gap(i)
            v.begin = off
            off += pad4(s.vlen(v))
    off += rec_gap
    for i, v in enumerate(s.vars):
        if s.is_rec(v):
            v.begin = off
            off += s.vlen(v) if len(s.recvars()) == 1 else pad4(s.vlen(v))
    return s


def build_file(s, data, filler=0, tail_pad=True):
    """data: {varindex: np.array of shape (numrecs,)+shape or shape} in natural values.
    Returns the file bytes for schema s (begins must be assigned)."""
    hdr = encode_header(s)
    end = len(hdr)
    rs = s.recsize()
    for v in s.vars:
        if s.is_rec(v):
            end = max(end, v.begin + (s.numrecs - 1) * rs + s.vlen(v) if s.numrecs > 0 else v.begin)
        else:
            end = max(end, v.begin + pad4(s.vlen(v)))
    buf = bytearray([filler]) * end if filler else bytearray(end)
    buf[:len(hdr)] = hdr
    for i, v in enumerate(s.vars):
        if i not in data:
            continue
        arr = np.asarray(data[i])
        raw = arr.astype(BE[v.xtype]).tobytes() if v.xtype != NC_CHAR else arr.astype('u1').tobytes()
        if s.is_rec(v):
            vl = s.vlen(v)
            for r in range(s.numrecs):
                buf[v.begin + r * rs: v.begin + r * rs + vl] = raw[r * vl:(r + 1) * vl]
        else:
            buf[v.begin: v.begin + len(raw)] = raw
    return bytes(buf)


# ---------------------------------------------------------------- decoder
class _Rd:
    log = None          # decode_tokens(): list of (offset, length, what) of every header token read

    def __init__(self, b, version):
        self.b, self.p, self.v = b, 0, version

    def take(self, n, what):
        if n < 0 or self.p + n > len(self.b):
            raise FormatError("truncated header while reading %s at %d" % (what, self.p))
        r = self.b[self.p:self.p + n]
        if _Rd.log is not None:
            _Rd.log.append((self.p, n, what))
        self.p += n
        return r

    def i32(self, what):
        return struct.unpack('>i', self.take(4, what))[0]

    def nn(self, what):
        if self.v == 5:
            x = struct.unpack('>q', self.take(8, what))[0]
        else:
            x = struct.unpack('>i', self.take(4, what))[0]
        if x < 0:
            raise FormatError("negative %s (%d) at %d" % (what, x, self.p))
        return x

    def name(self, strict):
        n = self.nn("name length")
        if n == 0 and strict:
            raise FormatError("zero-length name at %d" % self.p)
        s = self.take(n, "name")
        padn = pad4(n) - n
        p = self.take(padn, "name padding")
        if strict and any(p):
            raise FormatError("non-zero name padding at %d" % self.p)
        return s

    def attlist(self, strict):
        tag = self.i32("att tag")
        n = self.nn("att nelems")
        if tag == 0:
            if n != 0:
                raise FormatError("ABSENT attribute list with nelems %d" % n)
            return []
        if tag != NC_ATTRIBUTE:
            raise FormatError("bad attribute tag %d at %d" % (tag, self.p))
        out = []
        for _ in range(n):
            nm = self.name(strict)
            xt = self.i32("att type")
            if xt < 1 or xt > (11 if self.v == 5 else 6):
                raise FormatError("bad attribute type %d" % xt)
            ne = self.nn("att nelems")
            raw = self.take(ne * XSZ[xt], "att values")
            p = self.take(pad4(len(raw)) - len(raw), "att padding")
            if strict and any(p):
                raise FormatError("non-zero attribute padding for %r" % nm)
            vals = bytes(raw) if xt == NC_CHAR else np.frombuffer(raw, dtype=BE[xt]).astype(NATIVE[xt])
            out.append(Att(bytes(nm), xt, vals))
        return out


def decode_header(b, strict=True):
    """returns (Schema, header_length).  strict: also reject non-zero padding, duplicate names,
    vsize not following the spec rule."""
    if len(b) < 4 or b[:3] != b'CDF' or b[3] not in (1, 2, 5):
        raise FormatError("bad magic %r" % bytes(b[:4]))
    v = b[3]
    r = _Rd(b, v)
    r.p = 4
    if v == 5:
        numrecs = struct.unpack('>Q', r.take(8, "numrecs"))[0]
    else:
        numrecs = struct.unpack('>I', r.take(4, "numrecs"))[0]
    s = Schema(v, numrecs)
    tag = r.i32("dim tag")
    n = r.nn("dim nelems")
    if tag == 0:
        if n != 0:
            raise FormatError("ABSENT dim list with nelems %d" % n)
    elif tag == NC_DIMENSION:
        for _ in range(n):
            nm = r.name(strict)
            ln = r.nn("dim length")
            s.dims.append([bytes(nm), ln])
    else:
        raise FormatError("bad dimension tag %d" % tag)
    if strict and sum(1 for d in s.dims if d[1] == 0) > 1:
        raise FormatError("more than one unlimited dimension")
    s.gatts = r.attlist(strict)
    tag = r.i32("var tag")
    n = r.nn("var nelems")
    if tag == 0:
        if n != 0:
            raise FormatError("ABSENT var list with nelems %d" % n)
    elif tag == NC_VARIABLE:
        for _ in range(n):
            nm = r.name(strict)
            nd = r.nn("ndims")
            dimids = [r.nn("dimid") for _ in range(nd)]
            for k, d in enumerate(dimids):
                if d >= len(s.dims):
                    raise FormatError("dimid %d out of range in %r" % (d, nm))
                if strict and k > 0 and s.dims[d][1] == 0:
                    raise FormatError("unlimited dimension not first in %r" % nm)
            atts = r.attlist(strict)
            xt = r.i32("var type")
            if xt < 1 or xt > (11 if v == 5 else 6):
                raise FormatError("bad variable type %d" % xt)
            if v == 5:
                vs = r.nn("vsize")
            else:
                vs = struct.unpack('>I', r.take(4, "vsize"))[0]
            if v == 1:
                bg = r.i32("begin")
            else:
                bg = struct.unpack('>q', r.take(8, "begin"))[0]
            if bg < 0:
                raise FormatError("negative begin for %r" % nm)
            s.vars.append(Var(bytes(nm), xt, dimids, atts, bg, vs))
    else:
        raise FormatError("bad variable tag %d" % tag)
    if strict:
        for lst, what in ((s.dims, "dimension"), (s.vars, "variable")):
            names = [x[0] if isinstance(x, list) else x.name for x in lst]
            if len(set(names)) != len(names):
                raise FormatError("duplicate %s name" % what)
        for al in [s.gatts] + [x.atts for x in s.vars]:
            names = [a.name for a in al]
            if len(set(names)) != len(names):
                raise FormatError("duplicate attribute name")
    return s, r.p


def decode_tokens(b):
    """(offset, length, what) of every token of the header of b, in file order"""
    _Rd.log = []
    try:
        decode_header(b, strict=False)
        return _Rd.log
    finally:
        _Rd.log = None


def check_layout(s, hlen, filesize=None, strict_vsize=True):
    """layout invariants of the specification; returns list of problem strings"""
    probs = []
    fixed = [v for v in s.vars if not s.is_rec(v)]
    rec = s.recvars()
    prev_end = hlen
    for v in fixed:
        if v.begin % 4:
            probs.append("begin of %r not 4-byte aligned (%d)" % (v.name, v.begin))
        if v.begin < prev_end:
            probs.append("variable %r begins at %d inside header/previous variable (end %d)" % (v.name, v.begin, prev_end))
        prev_end = max(prev_end, v.begin + pad4(s.vlen(v)))
    rs = s.recsize()
    for k, v in enumerate(rec):
        if v.begin % 4:
            probs.append("begin of record variable %r not 4-byte aligned (%d)" % (v.name, v.begin))
        if v.begin < prev_end:
            probs.append("record variable %r begins at %d before end %d of the preceding data" % (v.name, v.begin, prev_end))
        prev_end = max(prev_end, v.begin + (s.vlen(v) if len(rec) == 1 else pad4(s.vlen(v))))
    if rec:
        span = prev_end - rec[0].begin
        if span > rs and s.numrecs > 1:
            probs.append("record variables span %d bytes > record size %d" % (span, rs))
    if strict_vsize:
        for v in s.vars:
            if v.vsize != s.vsize_spec(v):
                probs.append("vsize of %r is %d, spec rule gives %d" % (v.name, v.vsize, s.vsize_spec(v)))
    if s.version == 1:
        for v in s.vars:
            if v.begin > 0x7FFFFFFF:
                probs.append("CDF-1 begin beyond 2GiB")
    if filesize is not None:
        need = hlen
        for v in fixed:
            need = max(need, v.begin + s.vlen(v))
        if rec and s.numrecs > 0:
            for v in rec:
                need = max(need, v.begin + (s.numrecs - 1) * rs + s.vlen(v))
        # a file may be shorter than 'need' only by never-written trailing data; callers decide
    return probs


def var_offsets(s, v):
    """(begin, recsize or 0, bytes per record/whole)"""
    return v.begin, (s.recsize() if s.is_rec(v) else 0), s.vlen(v)


def read_var(b, s, v, numrecs=None):
    """decode variable v's data from file bytes b (short files are zero-extended).
    Returns array shape (numrecs,)+shape for record variables, else shape."""
    xt = v.xtype
    shp = s.shape(v)
    vl = s.vlen(v)
    if s.is_rec(v):
        nr = s.numrecs if numrecs is None else numrecs
        rs = s.recsize()
        out = bytearray(nr * vl)
        for r in range(nr):
            o = v.begin + r * rs
            chunk = b[o:o + vl]
            out[r * vl:r * vl + len(chunk)] = chunk
        return np.frombuffer(bytes(out), dtype=BE[xt]).astype(NATIVE[xt]).reshape([nr] + shp)
    chunk = bytes(b[v.begin:v.begin + vl])
    chunk = chunk + b'\0' * (vl - len(chunk))
    return np.frombuffer(chunk, dtype=BE[xt]).astype(NATIVE[xt]).reshape(shp)


def logical_dump(b, strict=True):
    """layout-independent canonical content of a file: used to compare two configurations"""
    s, hl = decode_header(b, strict)
    out = {"version": s.version, "numrecs": s.numrecs,
           "dims": [(n.hex(), l) for n, l in s.dims],
           "gatts": [(a.name.hex(), a.xtype, a.raw_be().hex()) for a in s.gatts], "vars": []}
    for v in s.vars:
        out["vars"].append({"name": v.name.hex(), "xtype": v.xtype, "dimids": list(v.dimids),
                            "atts": [(a.name.hex(), a.xtype, a.raw_be().hex()) for a in v.atts],
                            "data": read_var(b, s, v).astype(BE[v.xtype]).tobytes().hex()})
    return out
