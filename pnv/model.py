"""model -- executable reference models used by the oracles: memory types, MPI datatype
type maps (computed independently of MPI_Pack), element selection, the file data model
(values + written mask + record count), expectations attached to script lines."""
import numpy as np
import struct
from . import cdfspec as cs
from .core import Violation, ints

# name -> (numpy native dtype, is_text)
MEM = {"text": "u1", "schar": "i1", "uchar": "u1", "short": "<i2", "ushort": "<u2", "int": "<i4", "uint": "<u4",
       "long": "<i8", "float": "<f4", "double": "<f8", "longlong": "<i8", "ulonglong": "<u8"}
MEM_NAMES = list(MEM)
NUMERIC_MEM = [m for m in MEM_NAMES if m != "text"]
# memory type equal to the external type (what flexible API with MPI_DATATYPE_NULL / matching type uses)
XT2MEM = {1: "schar", 2: "text", 3: "short", 4: "int", 5: "float", 6: "double", 7: "uchar", 8: "ushort", 9: "uint", 10: "longlong", 11: "ulonglong"}

NC_NOERR = 0
E = dict(EBADID=-33, ENFILE=-34, EEXIST=-35, EINVAL=-36, EPERM=-37, ENOTINDEFINE=-38, EINDEFINE=-39, EINVALCOORDS=-40,
         EMAXDIMS=-41, ENAMEINUSE=-42, ENOTATT=-43, EMAXATTS=-44, EBADTYPE=-45, EBADDIM=-46, EUNLIMPOS=-47, EMAXVARS=-48,
         ENOTVAR=-49, EGLOBAL=-50, ENOTNC=-51, ESTS=-52, EMAXNAME=-53, EUNLIMIT=-54, ENORECVARS=-55, ECHAR=-56, EEDGE=-57,
         ESTRIDE=-58, EBADNAME=-59, ERANGE=-60, ENOMEM=-61, EVARSIZE=-62, EDIMSIZE=-63, ETRUNC=-64, EACCESS=-77,
         ENOTFOUND=-90, ELATEFILL=-122)


def load_error_codes(bld):
    """read the PnetCDF-specific error codes from the built pnetcdf.h (names only; values are API constants)"""
    import re, os
    out = dict(E)
    try:
        for ln in open(os.path.join(bld, "src", "include", "pnetcdf.h")):
            m = re.match(r"#define\s+NC_(E\w+)\s+\(?(-\d+)\)?", ln)
            if m:
                out[m.group(1)] = int(m.group(2))
    except OSError:
        pass
    return out


def int_range(dt):
    dt = np.dtype(dt)
    if dt.kind in "iu":
        ii = np.iinfo(dt)
        return int(ii.min), int(ii.max)
    if dt.itemsize == 4:
        return -(1 << 24), 1 << 24
    return -(1 << 53), 1 << 53


def safe_range(mt, xt):
    """integer interval exactly representable in both the memory type and the external type"""
    a = int_range(MEM[mt])
    b = int_range(cs.NATIVE[xt])
    return max(a[0], b[0]), min(a[1], b[1])


# ------------------------------------------------------------------ MPI datatype grammar
class TD:
    """derived datatype description; tm = byte offsets of the primitive elements of one
    instance in type-map order; all constructions keep lb == 0"""

    def __init__(self, kind, prim, tm, extent, args=None, base=None):
        self.kind, self.prim, self.tm, self.extent, self.args, self.base = kind, prim, tm, extent, args or {}, base
        self.psize = np.dtype(MEM[prim]).itemsize
        self.slot = None

    @property
    def size(self):
        return len(self.tm) * self.psize

    @staticmethod
    def prim_(name):
        return TD("prim", name, [0], np.dtype(MEM[name]).itemsize)

    def contig(self, n):
        return TD("contig", self.prim, [o + i * self.extent for i in range(n) for o in self.tm], n * self.extent, {"n": n}, self)

    def vector(self, n, bl, stride):
        tm = [o + (i * stride + j) * self.extent for i in range(n) for j in range(bl) for o in self.tm]
        return TD("vector", self.prim, tm, ((n - 1) * stride + bl) * self.extent, {"n": n, "bl": bl, "stride": stride}, self)

    def hvector(self, n, bl, stride):
        tm = [o + i * stride + j * self.extent for i in range(n) for j in range(bl) for o in self.tm]
        return TD("hvector", self.prim, tm, (n - 1) * stride + bl * self.extent, {"n": n, "bl": bl, "stride": stride}, self)

    def indexed(self, bls, disps):
        tm = [o + (d + j) * self.extent for b, d in zip(bls, disps) for j in range(b) for o in self.tm]
        ub = max((d + b) for b, d in zip(bls, disps)) * self.extent
        return TD("indexed", self.prim, tm, ub, {"bls": ints(bls), "disps": ints(disps)}, self)

    def hindexed(self, bls, disps):
        tm = [o + d + j * self.extent for b, d in zip(bls, disps) for j in range(b) for o in self.tm]
        ub = max(d + b * self.extent for b, d in zip(bls, disps))
        return TD("hindexed", self.prim, tm, ub, {"bls": ints(bls), "disps": ints(disps)}, self)

    def subarray(self, sizes, subsizes, starts):
        idx = np.indices(subsizes).reshape(len(sizes), -1).T if len(sizes) else np.zeros((1, 0), int)
        strides = [int(np.prod(sizes[k + 1:])) for k in range(len(sizes))]
        tm = []
        for row in idx:
            lin = sum((int(r) + s) * st for r, s, st in zip(row, starts, strides))
            tm += [o + lin * self.extent for o in self.tm]
        return TD("subarray", self.prim, tm, int(np.prod(sizes)) * self.extent, {"sizes": ints(sizes), "subsizes": ints(subsizes), "starts": ints(starts)}, self)

    def resized(self, extent):
        return TD("resized", self.prim, list(self.tm), extent, {"lb": 0, "extent": extent}, self)

    def contains(self, kinds):
        t = self
        while t is not None:
            if t.kind in kinds:
                return True
            t = t.base
        return False

    def ref(self):
        return self.prim if self.kind == "prim" else "t%d" % self.slot

    def emit(self, script, ranks, alloc):
        """emit type ops (bases first); alloc() returns a fresh slot number"""
        if self.kind == "prim" or self.slot is not None:
            return
        self.base.emit(script, ranks, alloc)
        self.slot = alloc()
        script.add(ranks, "type", t=self.slot, kind=self.kind, base=self.base.ref(), **self.args)

    def positions(self, n):
        """byte offsets of the first n primitive elements of a buffer of ceil(n/len(tm)) instances"""
        per = len(self.tm)
        j = np.arange(n)
        return (j // per) * self.extent + np.asarray(self.tm, dtype=np.int64)[j % per]

    def span(self, count):
        """bytes needed for count instances"""
        if count <= 0:
            return 0
        return (count - 1) * self.extent + (max(self.tm) + self.psize if self.tm else 0)


def random_td(rng, prim, depth=None, passthrough_safe=False):
    """random derived type with lb == 0 and small size.
    passthrough_safe: stay inside what the installed MPI-IO layer handles.  PnetCDF hands the caller's buffer
    datatype to MPI_File_write_at(_all) unchanged when no conversion, no byte swap and no packing happens (1-byte
    types, tiny nc_ibuf_size); Open MPI 4.1.4's ROMIO then writes wrong bytes for (h)indexed types built over a base
    that contains a resized or subarray constructor -- reproduced with plain MPI-IO and mapped by
    tools/romio_selftest.py.  Such types are an MPI-IO defect, not PnetCDF behaviour, and are not generated."""
    base = TD.prim_(prim)
    depth = rng.choice([0, 1, 1, 1, 2]) if depth is None else depth
    t = base
    for _ in range(depth):
        k = rng.choice(["contig", "vector", "hvector", "indexed", "hindexed", "subarray", "resized"])
        if passthrough_safe and k in ("indexed", "hindexed") and t.contains(("resized", "subarray")):
            k = rng.choice(["contig", "vector", "hvector"])
        if k == "contig":
            t = t.contig(rng.randint(1, 3))
        elif k == "vector":
            bl = rng.randint(1, 2)
            t = t.vector(rng.randint(1, 3), bl, bl + rng.randint(0, 2))
        elif k == "hvector":
            bl = rng.randint(1, 2)
            t = t.hvector(rng.randint(1, 3), bl, bl * t.extent + t.psize * rng.randint(0, 3))
        elif k == "indexed":
            n = rng.randint(1, 3)
            bls, disps, d = [], [], 0
            for i in range(n):
                b = rng.randint(1, 2)
                bls.append(b)
                disps.append(d)
                d += b + rng.randint(0, 2)
            t = t.indexed(bls, disps)
        elif k == "hindexed":
            n = rng.randint(1, 3)
            bls, disps, d = [], [], 0
            for i in range(n):
                b = rng.randint(1, 2)
                bls.append(b)
                disps.append(d)
                d += b * t.extent + t.psize * rng.randint(0, 2)
            t = t.hindexed(bls, disps)
        elif k == "subarray":
            nd = rng.randint(1, 2)
            sizes = [rng.randint(1, 3) for _ in range(nd)]
            sub = [rng.randint(1, s) for s in sizes]
            st = [rng.randint(0, s - u) for s, u in zip(sizes, sub)]
            # keep lb == 0 semantics: subarray extent covers the full array, lb is 0 by definition
            t = t.subarray(sizes, sub, st)
        else:
            t = t.resized(t.extent + t.psize * rng.randint(0, 2))
        if len(t.tm) > 24:
            break
    return t


# ------------------------------------------------------------------ selections
def select(start, count, stride=None):
    """index arrays (one per dimension, flattened row-major over count) of the addressed elements"""
    nd = len(count)
    if nd == 0:
        return ()
    stride = stride or [1] * nd
    axes = [start[k] + stride[k] * np.arange(count[k], dtype=np.int64) for k in range(nd)]
    grids = np.meshgrid(*axes, indexing="ij")
    return tuple(g.reshape(-1) for g in grids)


def imap_positions(count, imap):
    """packed-buffer index of each addressed element (row-major over count) under imap"""
    nd = len(count)
    if nd == 0:
        return np.zeros(1, dtype=np.int64)
    grids = np.meshgrid(*[np.arange(c, dtype=np.int64) for c in count], indexing="ij")
    pos = np.zeros(grids[0].size, dtype=np.int64)
    for k in range(nd):
        pos += grids[k].reshape(-1) * imap[k]
    return pos


# ------------------------------------------------------------------ file data model
class VarM:
    def __init__(self, name, xtype, dimids, shape, isrec):
        self.name, self.xtype, self.dimids, self.shape, self.isrec = name, xtype, list(dimids), list(shape), isrec
        self.dt = np.dtype(cs.NATIVE[xtype])
        full = ([0] if isrec else []) + self.shape
        self.data = np.zeros(full, dtype=self.dt)
        self.mask = np.zeros(full, dtype=bool)     # True = value known (written or filled)
        self.nofill = True
        self.fillval = None                        # explicit _FillValue (python number) or None
        self.atts = []

    @property
    def ndims(self):
        return len(self.dimids)

    def fill_value(self):
        return self.fillval if self.fillval is not None else cs.FILL[self.xtype]

    def ensure_recs(self, n):
        if self.isrec and self.data.shape[0] < n:
            add = n - self.data.shape[0]
            shp = [add] + self.shape
            if self.nofill:
                self.data = np.concatenate([self.data, np.zeros(shp, dtype=self.dt)])
                self.mask = np.concatenate([self.mask, np.zeros(shp, dtype=bool)])
            else:
                # records that come into existence without being written are NOT filled by PnetCDF
                # (only ncmpi_fill_var_rec fills); they stay unknown
                self.data = np.concatenate([self.data, np.zeros(shp, dtype=self.dt)])
                self.mask = np.concatenate([self.mask, np.zeros(shp, dtype=bool)])


class FileM:
    def __init__(self, version):
        self.version = version
        self.dims = []     # [name(bytes), len]
        self.vars = []
        self.gatts = []
        self.numrecs = 0

    def unlimdim(self):
        for i, d in enumerate(self.dims):
            if d[1] == 0:
                return i
        return -1

    def add_var(self, name, xtype, dimids):
        isrec = len(dimids) > 0 and self.dims[dimids[0]][1] == 0
        shape = [self.dims[d][1] for d in (dimids[1:] if isrec else dimids)]
        v = VarM(name, xtype, dimids, shape, isrec)
        if isrec:
            v.ensure_recs(self.numrecs)
        self.vars.append(v)
        return len(self.vars) - 1

    def full_shape(self, v):
        return ([self.numrecs] if v.isrec else []) + v.shape

    def put(self, varid, idx, vals):
        v = self.vars[varid]
        if v.isrec and len(idx) and idx[0].size:
            need = int(idx[0].max()) + 1
            if need > self.numrecs:
                self.numrecs = need
            for w in self.vars:
                w.ensure_recs(self.numrecs)
        if v.ndims == 0:
            v.data[()] = vals[0]
            v.mask[()] = True
        elif idx[0].size:
            v.data[idx] = vals
            v.mask[idx] = True

    def get(self, varid, idx):
        v = self.vars[varid]
        if v.ndims == 0:
            return v.data.reshape(1).copy(), v.mask.reshape(1).copy()
        return v.data[idx], v.mask[idx]

    def schema(self):
        s = cs.Schema(self.version, self.numrecs, [list(d) for d in self.dims], list(self.gatts),
                      [cs.Var(v.name, v.xtype, v.dimids, list(v.atts)) for v in self.vars])
        return s


# ------------------------------------------------------------------ expectations
class Expect:
    """what the model predicts for the return event of (rank, line)"""

    def __init__(self, err=0, buf=None, mask=None, kv=None, what="", soft=False):
        self.err = err          # int, set of ints, or None (don't care)
        self.buf = buf          # expected bytes of the get buffer (np.uint8 array) or None
        self.mask = mask        # np.bool array: which bytes are asserted
        self.kv = kv or {}      # exact key=value expectations
        self.what = what
        self.tag = None         # site tag used in the violation key instead of the API name
        self.alt_kv = {}        # {key: (value, tag)}: value the *known-deviating* behaviour would give
        self.range_kv = {}      # {key: (lo, hi)} inclusive integer bounds
        self.alt_err = None     # (value, tag): error code the known-deviating behaviour would return

    def check(self, ev, res, rank):
        out = []
        api = ev.kv.get("api", ev.op)
        if self.err is not None:
            got = ev.geti("err")
            ok = (got in self.err) if isinstance(self.err, (set, frozenset, list, tuple)) else (got == self.err)
            if not ok and self.alt_err is not None and got == self.alt_err[0]:
                out.append(Violation(self.alt_err[1], "%s at line %d rank %d returned %s, property says %s (%s)" % (api, ev.line, rank, got, self.err, self.what), res))
            elif not ok:
                out.append(Violation("err|%s|got=%s|want=%s" % (api, got, self.err if not isinstance(self.err, (set, frozenset)) else sorted(self.err)),
                                     "%s at line %d rank %d returned %s, model says %s (%s)" % (api, ev.line, rank, got, self.err, self.what), res))
        for k, want in self.kv.items():
            got = ev.kv.get(k)
            if str(got) != str(want):
                if k in self.alt_kv and str(got) == str(self.alt_kv[k][0]):
                    out.append(Violation(self.alt_kv[k][1], "%s at line %d rank %d: %s=%s, property says %s (%s)" % (api, ev.line, rank, k, got, want, self.what), res))
                    continue
                out.append(Violation("kv|%s|%s" % (self.tag or api, k), "%s at line %d rank %d: %s=%s, model says %s (%s)" % (api, ev.line, rank, k, got, want, self.what), res))
        for k, (lo, hi) in self.range_kv.items():
            try:
                got = int(ev.kv.get(k))
            except (TypeError, ValueError):
                got = None
            if got is None or got < lo or got > hi:
                out.append(Violation("range|%s|%s" % (self.tag or api, k), "%s at line %d rank %d: %s=%s outside [%s,%s] (%s)" % (api, ev.line, rank, k, got, lo, hi, self.what), res))
        if self.buf is not None:
            got = ev.hexb()
            if got is None or len(got) != len(self.buf):
                out.append(Violation("buf|%s|missing" % api, "%s line %d rank %d: no buffer / wrong length" % (api, ev.line, rank), res))
            else:
                g = np.frombuffer(got, dtype=np.uint8)
                bad = (g != self.buf) & self.mask
                if bad.any():
                    i = int(np.argmax(bad))
                    out.append(Violation("data|%s" % (self.tag or api), "%s at line %d rank %d: buffer byte %d is %02x, model says %02x (%d bytes differ; %s)" % (
                        api, ev.line, rank, i, g[i], self.buf[i], int(bad.sum()), self.what), res))
        return out


def check_expectations(res, expect):
    """expect: {(rank, line): Expect}"""
    out = []
    rets = [res.ret(r) for r in range(res.case.nprocs)]
    for (rank, line), ex in expect.items():
        ev = rets[rank].get(line)
        if ev is None:
            continue    # case aborted earlier: reported by the generic oracle
        out += ex.check(ev, res, rank)
    return out
