"""C07 -- metadata and namespace operations behave like a sequential model."""
import os
import random
from ..core import Check, Violation
from ..runner import Case
from ..metaprog import MetaProg, random_name, compare_sweep, compare_header, nfc
from ..model import check_expectations, Expect
from ..dataprog import types_for
from .. import cdfspec as cs


def gen_case(rng, i, nprocs, safe):
    version = rng.choice([1, 2, 5])
    hints = []
    for k in ("nc_hash_size_dim", "nc_hash_size_var", "nc_hash_size_gattr", "nc_hash_size_vattr"):
        if rng.random() < 0.6:
            hints.append("%s:%d" % (k, rng.choice([1, 1, 2, 3, 7])))
    p = MetaProg(rng, nprocs, "@OUT@/c07.nc", version, hints=";".join(hints) or None)
    p.create()
    prng = random.Random(7919 * i + 13)
    pool = [random_name(rng) for _ in range(10)]          # small pool: name reuse, collisions, re-definition after delete
    tps = types_for(version)
    nops = rng.randint(25, 50)
    for k in range(nops):
        r = rng.random()
        nm = rng.choice(pool) if rng.random() < 0.7 else random_name(rng)
        vids = [-1] + list(range(len(p.m.vars)))
        if r < 0.10:
            p.def_dim(nm, rng.choice([0, 1, 2, 5, 9]))
        elif r < 0.22:
            nd = rng.randint(0, min(3, len(p.m.dims)))
            ds = [rng.randrange(len(p.m.dims)) for _ in range(nd)] if p.m.dims else []
            if ds and rng.random() < 0.05:
                ds[rng.randrange(len(ds))] = len(p.m.dims) + rng.randint(0, 2)
            p.def_var(nm, rng.choice(tps), ds)
        elif r < 0.47:
            vid = rng.choice(vids)
            n = rng.choice([0, 1, 1, 2, 3, 5, 17, 300 if rng.random() < 0.1 else 4])
            p.put_att(vid, nm, rng.choice(tps), n)
        elif r < 0.60:
            kind = rng.choice(["dim", "var", "att"])
            newname = rng.choice(pool) if rng.random() < 0.5 else random_name(rng)
            if kind == "dim" and p.m.dims:
                p.rename("dim", rng.randrange(len(p.m.dims)), newname)
            elif kind == "var" and p.m.vars:
                p.rename("var", rng.randrange(len(p.m.vars)), newname)
            else:
                vid = rng.choice(vids)
                if p.attlist(vid):
                    p.rename("att", rng.randrange(len(p.attlist(vid))), newname, vid=vid)
        elif r < 0.70:
            vid = rng.choice(vids)
            lst = p.attlist(vid)
            p.del_att(vid, rng.choice(lst).name if lst and rng.random() < 0.85 else nm)
        elif r < 0.80:
            vin, vout = rng.choice(vids), rng.choice(vids)
            lst = p.attlist(vin)
            p.copy_att_within(vin, rng.choice(lst).name if lst and rng.random() < 0.9 else nm, vout)
        elif r < 0.90:
            if p.defmode:
                p.enddef()
                p.snapshot()
            else:
                p.redef()
        else:
            if not p.defmode:
                p.snapshot()
        if not p.defmode and prng.random() < 0.3:
            # aimed: a data-mode overwrite with NO MORE elements than before but a wider type, so that only the
            # padded size grows -- must be refused (NC_ENOTINDEFINE) and change nothing.  Drawn from a private
            # generator (and leaving the model unchanged), so the main random stream and all other operations stay as they were.
            cands = [(vid, a) for vid in vids for a in p.attlist(vid) if a.nelems >= 1]
            if cands:
                vid, a = prng.choice(cands)
                oldpad = cs.pad4(a.nelems * cs.XSZ[a.xtype])
                opts = [(t, n) for t in tps if t != cs.NC_CHAR for n in range(1, a.nelems + 1) if cs.pad4(n * cs.XSZ[t]) > oldpad]
                if opts:
                    t, n = prng.choice(opts)
                    save, p.rng = p.rng, prng
                    p.put_att(vid, a.name, t, n)
                    p.rng = save
        if rng.random() < 0.5 or k == nops - 1:
            p.sweep()
    if p.defmode:
        p.enddef()
    p.sweep()
    p.emit("*", "close", Expect(0), f=p.f)
    p.snapshot()
    p.emit("*", "open", Expect(0), f=p.f, path="s:@OUT@/c07.nc", omode=0, info=p.hints or "-")
    p.sweep()
    p.emit("*", "close", Expect(0), f=p.f)
    env = {"PNETCDF_SAFE_MODE": "1"} if safe else {}
    return Case("c07_%05d" % i, nprocs, p.s.lines, env=env, meta={"expect": p.expect, "sweeps": p.sweeps, "snaps": p.snaps, "feat": p.feat})


class C07(Check):
    id = "C07"
    rule = ("sequences of 25-50 def_dim / def_var / put_att (every type, lengths 0..300, overwrite smaller/equal/larger) / rename_dim / "
            "rename_var / rename_att / copy_att / del_att over global and per-variable lists, names from a small pool (reuse after delete, "
            "Bernstein-hash collisions at table sizes 1,2,3,7), multi-byte UTF-8, NFC/NFD pairs, 200-256 byte names, interleaved with "
            "enddef/redef/close/open, define and data mode (data-mode growth must be refused), safe mode on/off, 1-2 ranks.  After about "
            "every second operation a full sweep (by id and by name, values through get_att) is compared with the sequential model; "
            "after every data-mode step and after close the raw header is decoded by the specification decoder and compared too. "
            "distinct = distinct (operation, mode, outcome) tuples")
    assumptions = ["attribute values are inside the range of both memory and external type (range errors are C09)",
                   "renaming an object to its own current name is not generated (outcome differs by object kind)"]

    def generate(self, tier, rng):
        n = int(os.environ.get("VERIF_N", 260)) if tier == "quick" else 4000
        for i in range(n):
            yield gen_case(rng, i, rng.choice([1, 1, 2]), safe=(rng.random() < 0.3))

    def features(self, res):
        for f in res.case.meta["feat"]:
            self.features_seen.add(f)
        return res.case.name

    def oracle(self, res):
        m = res.case.meta
        v = check_expectations(res, m["expect"])
        for line, model in m["sweeps"].items():
            for rank in range(res.case.nprocs):
                self.count("sweeps_compared")
                v += compare_sweep(res, rank, line, model)
        for tag, model in m["snaps"].items():
            fn = os.path.join(res.outdir, "snap." + tag)
            if os.path.exists(fn):
                self.count("headers_decoded")
                v += compare_header(open(fn, "rb").read(), model, res, "file at snapshot " + tag)
        return v
