"""C02 -- nonblocking request aggregation is equivalent to blocking execution."""
import os
from ..core import Check, Violation
from ..runner import Case
from ..dataprog import NBProg, check_final_file
from ..model import check_expectations, Expect


def post_round(p, rng, maxreq=5, kinds=("iput", "iget", "bput")):
    for r in range(p.np):
        for _ in range(rng.randint(0, maxreq)):
            vid = rng.randrange(len(p.fm.vars))
            v = p.fm.vars[vid]
            kind = rng.choice(kinds)
            shape = list(p.shape_now(v))
            if kind == "iget":
                if v.ndims and min(shape) == 0:
                    continue
                st, ct, sd = p.random_box(shape)
            else:
                if v.isrec:
                    shape[0] = shape[0] + rng.choice([0, 0, 1, 2])
                    if shape[0] == 0:
                        shape[0] = 1
                if v.ndims and min(shape) == 0:
                    continue
                st, ct, sd = p.random_box(shape)
            fam = "varn" if rng.random() < 0.25 else "std"
            if fam == "varn":
                sd = [1] * len(sd)
                # keep the box valid for unit stride
                ct = [min(c, L - s) for s, c, L in zip(st, ct, shape)] if v.ndims else ct
            p.post(kind, r, vid, st, ct, sd, fam=fam)


def pick_spec(p, rng, rank, allow_grow=True):
    pend = p.pending[rank]
    k = rng.random()
    cur = p.fm.numrecs
    if not allow_grow:
        ok = [q for q in pend if q["kind"] == "iget" or q["maxrec"] <= cur]
        if len(ok) != len(pend):
            sub = rng.sample(ok, rng.randint(0, len(ok)))
            return sub
    if k < 0.25:
        return "all"
    if k < 0.35:
        return "allput"
    if k < 0.45:
        return "allget"
    if k < 0.5:
        return "none"
    sub = rng.sample(pend, rng.randint(0, len(pend)))
    if rng.random() < 0.3:
        # NC_REQ_NULL entries anywhere in the id array are legal and ignored
        for _ in range(rng.randint(1, 2)):
            sub.insert(rng.randint(0, len(sub)), None)
    if k > 0.9:
        sub = list(pend)
        rng.shuffle(sub)
    return sub


def gen_case(rng, i, nprocs, tag="c02"):
    hints = []
    if rng.random() < 0.3:
        hints.append("nc_ibuf_size:%d" % rng.choice([1, 16, 64, 512]))
    if rng.random() < 0.4:
        hints.append("nc_in_place_swap:%s" % rng.choice(["enable", "disable", "auto"]))
    p = NBProg(rng, nprocs, "@OUT@/%s.nc" % tag, info=";".join(hints) or None)
    p.allow_get_overlap = (i % 10 == 9)
    p.create()
    p.random_schema(maxlen=rng.choice([4, 5, 8, 40 if i % 7 == 0 else 6]), maxdims=3, nrec=rng.choice([None, 1, 2]))
    if rng.random() < 0.15:
        # posting while in define mode is allowed: requests are queued
        pass
    p.enddef()
    for r in range(nprocs):
        if rng.random() < 0.7:
            p.attach(r, rng.choice([64, 512, 4096, 1 << 16]))
    # seed the file with some blocking data so that gets have something known to read
    for _ in range(rng.randint(1, 3)):
        p.coll_put(rng.randrange(len(p.fm.vars)))
    p.sync3()
    for phase in range(rng.randint(2, 5)):
        post_round(p, rng)
        mode = rng.random()
        if mode < 0.6:
            choice = {r: pick_spec(p, rng, r) for r in range(nprocs)}
            p.complete("wait", True, choice)
        elif mode < 0.85:
            p.begin_indep()
            ranks = [r for r in range(nprocs) if rng.random() < 0.7]
            choice = {r: pick_spec(p, rng, r, allow_grow=False) for r in ranks}
            # independent completion must not create records (that is C05's fragment)
            for r in list(choice):
                spec = choice[r]
                if isinstance(spec, str):
                    pend = p.pending[r]
                    sel = pend if spec == "all" else [q for q in pend if (q["kind"] == "iget") == (spec == "allget")]
                    if any(q["kind"] != "iget" and q["maxrec"] > p.fm.numrecs for q in sel):
                        choice[r] = [q for q in sel if q["kind"] == "iget" or q["maxrec"] <= p.fm.numrecs]
            p.complete("wait", False, choice)
            p.end_indep()
        else:
            choice = {}
            for r in range(nprocs):
                pend = p.pending[r]
                choice[r] = rng.sample(pend, rng.randint(0, len(pend))) if rng.random() < 0.8 else rng.choice(["all", "allput", "allget"])
            # cancel is not collective; call it on a subset of ranks
            choice = {r: s for r, s in choice.items() if rng.random() < 0.8}
            p.complete("cancel", False, choice)
        p.sync3()
        if rng.random() < 0.3:
            p.coll_get(rng.randrange(len(p.fm.vars))) if not any(p.pend_put.get(v) for v in range(len(p.fm.vars))) else None
    p.complete("wait", True, {r: "all" for r in range(nprocs)})
    for r in range(nprocs):
        if p.abuf[r] is not None:
            p.detach(r)
    p.sync3()
    p.read_all()
    p.close()
    p.emit("*", "barrier")
    p.emit(0, "snapshot", path="s:@OUT@/%s.nc" % tag, tag="final")
    p.emit("*", "balance", final=1)
    return Case("%s_%05d" % (tag, i), nprocs, p.s.lines, meta={"expect": p.expect, "fm": p.fm, "feat": p.feat, "nel": p.nelems_checked, "nposted": p.nb_posted})


class C02(Check):
    id = "C02"
    rule = ("random multisets of iput/iget/bput (std forms and varn, typed and flexible, record and fixed variables, no element "
            "written twice among pending requests, gets never overlap pending puts) completed by random partitions into "
            "successive wait_all / wait / cancel calls: NC_REQ_ALL, NC_{PUT,GET}_REQ_ALL, shuffled explicit subsets, id arrays "
            "containing NC_REQ_NULL, different counts per rank incl. none; oracle = blocking-semantics data model + pending-request "
            "model (statuses, ids reset, inq_nreqs, buffers after wait) + raw decode of the final file; distinct = distinct "
            "(post kind/record/nprocs) and (completion op, spec shape, coll, nulls, nprocs) tuples plus access tuples")
    assumptions = ["independent waits never create new records (record-count coherence is C05)",
                   "a get is never posted on elements with a pending put and vice versa (ordering inside one wait is unspecified)"]

    def generate(self, tier, rng):
        n = int(os.environ.get("VERIF_N", 260)) if tier == "quick" else 4000
        for i in range(n):
            nprocs = rng.choice([1, 2, 2, 3, 4] if tier == "quick" else [1, 2, 3, 4, 5, 6, 8])
            yield gen_case(rng, i, nprocs)

    def features(self, res):
        for f in res.case.meta["feat"]:
            self.features_seen.add(f)
        return next(iter(res.case.meta["feat"]), res.case.name)

    def oracle(self, res):
        v = check_expectations(res, res.case.meta["expect"])
        self.count("elements_compared", res.case.meta["nel"])
        self.count("requests_posted", res.case.meta["nposted"])
        # request id parity: even = put, odd = get; ids unique among pending ones
        for rank, evs in enumerate(res.logs):
            for e in evs:
                if e.kind == "R" and e.op in ("iput", "bput", "iget") and e.geti("err") == 0:
                    rid = e.geti("req")
                    if rid is None or rid < 0 or (rid % 2 == 0) != (e.op != "iget"):
                        v.append(Violation("reqid|parity|" + e.op, "request id %s returned by %s at line %d" % (rid, e.op, e.line), res))
        snap = os.path.join(res.outdir, "snap.final")
        if os.path.exists(snap):
            b = open(snap, "rb").read()
            self.count("file_bytes_decoded", len(b))
            v += check_final_file(b, res.case.meta["fm"], res)
        return v
