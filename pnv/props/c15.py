"""C15 -- out-of-range requests are rejected and writes stay inside their target."""
import os, itertools
import numpy as np
from ..core import Check, Violation, Script
from ..runner import Case
from ..model import Expect, load_error_codes, TD
from .. import cdfspec as cs

FMT_CMODE = {1: 0, 2: 0x0200, 5: 0x0020}


def applicable(shape, isrec, numrecs, isput, strict, start, count, stride, api_has_count=True):
    """set of acceptable return codes (names) for one (start,count,stride) request; shape incl. record dim (len 0)"""
    nd = len(shape)
    cnt = count if count is not None else [1] * nd
    coords = False
    for i in range(nd):
        L = shape[i]
        s, c = start[i], cnt[i]
        if isrec and i == 0:
            if s < 0:
                coords = True
            if not isput:
                L = numrecs
                if L == 0 and c > 0:
                    coords = True
                if s < 0 or s > L or (s == L and (strict or c > 0)):
                    coords = True
            continue
        if s < 0 or s > L or (s == L and (strict or c > 0)):
            coords = True
    if coords:
        return {"EINVALCOORDS"}
    definite, maybe = set(), set()
    for i in range(nd):
        L = shape[i]
        s, c = start[i], cnt[i]
        st = stride[i] if stride is not None else None
        if c < 0:
            definite.add("ENEGATIVECNT")
            # what the edge test says about a negative count is unspecified
            continue
        if isrec and i == 0:
            if isput:
                continue
            L = numrecs
        plain = (c > L) or (s + c > L)
        if st is None:
            if plain:
                definite.add("EEDGE")
        else:
            strided = c > 0 and s + (c - 1) * st >= L
            if st > 0:
                if strided:
                    definite.add("EEDGE")
            else:
                if plain or strided:
                    maybe.add("EEDGE")
    bad_stride = stride is not None and any(x <= 0 for x in stride)
    if definite:
        return definite | maybe
    if maybe and bad_stride:
        return {"EEDGE", "ESTRIDE"}
    if bad_stride:
        return {"ESTRIDE"}
    return {"OK"}


def elements(shape, start, count, stride):
    cnt = count if count is not None else [1] * len(shape)
    st = stride if stride is not None else [1] * len(shape)
    axes = [[start[i] + k * st[i] for k in range(cnt[i])] for i in range(len(shape))]
    return list(itertools.product(*axes))


def gen_case(rng, i, version, kind, strict, full_dim, tier):
    """one file, one variable pair (target + neighbour), hundreds of requests"""
    nd = 2 if "2d" in kind else 1
    isrec = kind.startswith("rec")
    lens = [rng.randint(1, 3) for _ in range(nd)]
    numrecs0 = rng.choice([0, 1, 2]) if isrec else 0
    sc = Script()
    path = "s:@OUT@/c15.nc"
    sc.add("*", "create", f=0, path=path, cmode=FMT_CMODE[version], info="romio_ds_write:disable")
    sc.add("*", "def_dim", f=0, name="s:t", len=0)
    for k in range(nd):
        sc.add("*", "def_dim", f=0, name="s:d%d" % k, len=lens[k])
    dimids = ([0] + [2] if nd == 2 else [0]) if isrec else list(range(1, nd + 1))
    shape = [0 if d == 0 else lens[d - 1] for d in dimids]
    xt = rng.choice([3, 4, 5, 6])
    mtname = {3: "short", 4: "int", 5: "float", 6: "double"}[xt]
    xsz = cs.XSZ[xt]
    # neighbours before and after the target so that stray writes are visible
    sc.add("*", "def_var", f=0, name="s:before", xtype=4, dimids="1", ndims=1)
    sc.add("*", "def_var", f=0, name="s:brec", xtype=3, dimids="0", ndims=1)
    sc.add("*", "def_var", f=0, name="s:target", xtype=xt, dimids=",".join(map(str, dimids)), ndims=nd)
    sc.add("*", "def_var", f=0, name="s:after", xtype=4, dimids="1", ndims=1)
    sc.add("*", "def_var", f=0, name="s:arec", xtype=6, dimids="0", ndims=1)
    sc.add("*", "enddef", f=0)
    TV = 2
    # initial content: neighbours and existing records
    sc.add("*", "put", f=0, v=0, form="var", mt="int", coll=1, data="hex:" + "11" * 4 * lens[0])
    sc.add("*", "put", f=0, v=3, form="var", mt="int", coll=1, data="hex:" + "22" * 4 * lens[0])
    if numrecs0:
        sc.add("*", "put", f=0, v=1, form="vara", mt="short", coll=1, start="0", count=str(numrecs0), data="hex:" + "33" * 2 * numrecs0)
        sc.add("*", "put", f=0, v=4, form="vara", mt="double", coll=1, start="0", count=str(numrecs0), data="hex:" + "44" * 8 * numrecs0)
    sc.add("*", "sync", f=0)
    snapline = sc.add("*", "snapshot", path=path, tag="init")
    sc.add("*", "fsnap", path=path, slot=0)
    sc.add("*", "begin_indep", f=0)
    reqs = []
    numrecs = numrecs0
    rng_s = lambda L: list(range(-1, L + 2))
    # enumerate: one dimension fully, the others sampled from valid+few invalid values
    def dim_values(L_eff, full):
        if full:
            return [(s, c) for s in range(-1, L_eff + 2) for c in range(-1, L_eff + 2)]
        return [(rng.randint(0, max(L_eff - 1, 0)), rng.choice([0, 1, 1]))]
    strides = [None, -1, 0, 1, 2, 3]
    combos = []
    for fd in range(nd):
        L_eff = [(numrecs0 + 1 if (isrec and d == 0) else shape[d]) for d in range(nd)]
        lists = [dim_values(L_eff[d], d == fd) for d in range(nd)]
        for tup in itertools.product(*lists):
            for sd in strides:
                combos.append((tup, sd, fd))
    rng.shuffle(combos)
    limit = 420 if tier == "quick" else 3000
    combos = combos[:limit]
    bnum = 0
    for (tup, sd, fd) in combos:
        start = [t[0] for t in tup]
        count = [t[1] for t in tup]
        isput = rng.random() < 0.6
        form = rng.choice(["vara", "vars", "varm", "var1", "varn", "nb"])
        stride = None
        if sd is not None:
            stride = [1] * nd
            stride[fd] = sd
            if rng.random() < 0.3:
                stride = [sd] * nd
            if form in ("vara", "var1", "varn"):
                form = rng.choice(["vars", "varm"])
        cnt = count
        if form == "var1":
            cnt = None
        if form == "varn" and any(c != 1 for c in count) and rng.random() < 0.3:
            pass
        want = applicable(shape, isrec, numrecs, isput, strict, start, cnt, stride)
        nel = 1
        for c in (cnt or [1] * nd):
            nel *= max(abs(c), 1)
        nel = max(nel, 1)
        kw = dict(f=0, v=TV, mt=mtname)
        if form == "var1":
            kw.update(form="var1", start=",".join(map(str, start)))
        elif form == "vara":
            kw.update(form="vara", start=",".join(map(str, start)), count=",".join(map(str, count)))
        elif form in ("vars", "varm"):
            kw.update(form=form, start=",".join(map(str, start)), count=",".join(map(str, count)), stride=",".join(map(str, stride)) if stride else "-")
            if form == "varm":
                kw["imap"] = "-"
        elif form == "varn":
            kw.update(form="varn", num=1, starts=",".join(map(str, start)), counts=",".join(map(str, count)))
        else:
            kw.update(form="vars" if stride else "vara", start=",".join(map(str, start)), count=",".join(map(str, count)))
            if stride:
                kw["stride"] = ",".join(map(str, stride))
        op = "put" if isput else "get"
        if form == "nb":
            op = "iput" if isput else "iget"
            bnum = (bnum + 1) % 1000
            kw.update(buf=bnum + 1, req=bnum + 1)
        else:
            kw["coll"] = 0
        if isput:
            kw["data"] = "hex:" + ("a7" * (nel * xsz))
        else:
            kw["nbytes"] = nel * xsz + 8
        line = sc.add("*", op, **kw)
        wline = None
        if form == "nb":
            wline = sc.add("*", "wait", f=0, coll=0, reqs="all")
        dline = sc.add("*", "fdiff", path=path, slot=0)
        ok = want == {"OK"}
        els = elements(shape if not isrec else [10 ** 9] + shape[1:], start, cnt, stride) if ok and isput else []
        if ok and isput and isrec and els:
            numrecs = max(numrecs, max(e[0] for e in els) + 1)
        reqs.append({"line": line, "wait": wline, "diff": dline, "want": sorted(want), "isput": isput, "els": els, "form": form if form != "nb" else op,
                     "start": start, "count": cnt, "stride": stride})
    # buffer descriptions that do not fit the request: flexible API, valid start/count, but bufcount x buftype describes
    # more or fewer elements than the request selects (contiguous and non-contiguous buffer types) -> NC_EIOMISMATCH, file untouched.
    # Private generator: the requests above keep their random stream.
    import random
    prng = random.Random(104729 * i + 7)
    tnext = [0]

    def talloc():
        tnext[0] += 1
        return tnext[0]
    for _ in range(10):
        isput = prng.random() < 0.7
        start = [0] * nd
        count = [prng.randint(1, max(L, 1)) if L > 0 else 1 for L in shape]
        if isrec:
            if numrecs == 0 and not isput:
                continue
            count[0] = prng.randint(1, max(numrecs, 1))
        nel = 1
        for c in count:
            nel *= c
        base = TD.prim_(mtname)
        kindt = prng.choice(["prim", "contig", "vector", "vector", "resized"])
        td = {"prim": base, "contig": base.contig(2), "vector": base.vector(prng.randint(2, 4), 1, 2), "resized": base.resized(2 * xsz)}[kindt]
        per = len(td.tm)
        wrong = [b for b in range(0, 2 * nel + 3) if b * per != nel and b >= 1]
        bufcount = prng.choice(wrong)
        if td.kind != "prim":
            td.emit(sc, "*", talloc)
        form = prng.choice(["vara", "vara", "nb"]) if isput else "vara"
        kw = dict(f=0, v=TV, mt="flex", form="vara", start=",".join(map(str, start)), count=",".join(map(str, count)), bufcount=bufcount, buftype=td.ref())
        span = td.span(bufcount)
        op = "put" if isput else "get"
        if form == "nb":
            op = "iput"
            bnum = (bnum + 1) % 1000
            kw.update(buf=bnum + 1, req=bnum + 1)
        else:
            kw["coll"] = 0
        if isput:
            kw["data"] = "hex:" + ("b9" * span)
        else:
            kw["nbytes"] = span + 8
        line = sc.add("*", op, **kw)
        wline = sc.add("*", "wait", f=0, coll=0, reqs="all") if form == "nb" else None
        dline = sc.add("*", "fdiff", path=path, slot=0)
        reqs.append({"line": line, "wait": wline, "diff": dline, "want": ["EIOMISMATCH"], "isput": isput, "els": [], "form": "flex-" + td.kind + ("-nb" if form == "nb" else ""),
                     "start": start, "count": count, "stride": "bufcount=%d x %s(%d elements)" % (bufcount, td.kind, per)})
    sc.add("*", "end_indep", f=0)
    sc.add("*", "close", f=0)
    env = {"PNETCDF_RELAX_COORD_BOUND": "0" if strict else "1"}
    return Case("c15_%05d" % i, 1, sc.lines, env=env, meta={"reqs": reqs, "shape": shape, "isrec": isrec, "xsz": xsz, "version": version, "strict": strict, "kind": kind,
                                                              "feat": (version, kind, strict)})


def gen_multi_case(rng, i, version, tier):
    """groups of 2-4 valid, element-disjoint requests on one 2-3 dimensional variable (fixed or record, unequal dimension
    lengths) completed by ONE wait, or one varn call with several sub-requests: the aggregated write must stay inside
    the union of the addressed elements"""
    isrec = rng.random() < 0.65
    nfix = rng.choice([2, 2, 1]) if isrec else rng.choice([2, 3])
    lens = rng.sample([2, 3, 4, 5, 6, 7], nfix)          # pairwise different lengths
    numrecs0 = rng.choice([0, 1, 3]) if isrec else 0
    sc = Script()
    path = "s:@OUT@/c15.nc"
    sc.add("*", "create", f=0, path=path, cmode=FMT_CMODE[version], info="romio_ds_write:disable")
    sc.add("*", "def_dim", f=0, name="s:t", len=0)
    for k in range(nfix):
        sc.add("*", "def_dim", f=0, name="s:d%d" % k, len=lens[k])
    dimids = ([0] if isrec else []) + list(range(1, nfix + 1))
    shape = [0 if d == 0 else lens[d - 1] for d in dimids]
    nd = len(shape)
    xt = rng.choice([1, 3, 4, 5, 6])
    mtname = {1: "schar", 3: "short", 4: "int", 5: "float", 6: "double"}[xt]
    xsz = cs.XSZ[xt]
    sc.add("*", "def_var", f=0, name="s:before", xtype=4, dimids="1", ndims=1)
    sc.add("*", "def_var", f=0, name="s:brec", xtype=3, dimids="0", ndims=1)
    sc.add("*", "def_var", f=0, name="s:target", xtype=xt, dimids=",".join(map(str, dimids)), ndims=nd)
    sc.add("*", "def_var", f=0, name="s:after", xtype=4, dimids="1", ndims=1)
    sc.add("*", "def_var", f=0, name="s:arec", xtype=6, dimids="0,1", ndims=2)
    sc.add("*", "enddef", f=0)
    sc.add("*", "put", f=0, v=0, form="var", mt="int", coll=1, data="hex:" + "11" * 4 * lens[0])
    sc.add("*", "put", f=0, v=3, form="var", mt="int", coll=1, data="hex:" + "22" * 4 * lens[0])
    if numrecs0:
        sc.add("*", "put", f=0, v=1, form="vara", mt="short", coll=1, start="0", count=str(numrecs0), data="hex:" + "33" * 2 * numrecs0)
        sc.add("*", "put", f=0, v=4, form="vara", mt="double", coll=1, start="0,0", count="%d,%d" % (numrecs0, lens[0]), data="hex:" + "44" * 8 * numrecs0 * lens[0])
    sc.add("*", "sync", f=0)
    sc.add("*", "snapshot", path=path, tag="init")
    sc.add("*", "fsnap", path=path, slot=0)
    sc.add("*", "begin_indep", f=0)
    reqs = []
    bnum = 0
    for g in range(60 if tier == "quick" else 400):
        eff = [(numrecs0 + 2 if (isrec and d == 0) else shape[d]) for d in range(nd)]
        taken = set()
        boxes = []
        for _ in range(rng.randint(2, 4)):
            st, ct, sd = [], [], []
            for d in range(nd):
                L = eff[d]
                s0 = rng.randint(0, L - 1)
                step = rng.choice([1, 1, 2]) if L - s0 > 1 else 1
                c = rng.randint(1, (L - 1 - s0) // step + 1)
                if rng.random() < 0.4:
                    c = 1                           # rows / columns / single planes interleave best
                st.append(s0); ct.append(c); sd.append(step)
            els = set(elements(eff, st, ct, sd))
            if els & taken:
                continue
            taken |= els
            boxes.append((st, ct, sd))
        if len(boxes) < 2:
            continue
        allels = sorted(taken)
        strided = any(x != 1 for b in boxes for x in b[2])
        how = rng.choice(["iput", "iput", "varn", "ivarn"]) if not strided else "iput"
        if how == "iput":
            for (st, ct, sd) in boxes:
                bnum = (bnum + 1) % 1000
                nel = int(np.prod(ct))
                kw = dict(f=0, v=2, mt=mtname, form="vars" if any(x != 1 for x in sd) else rng.choice(["vara", "vars"]), start=",".join(map(str, st)), count=",".join(map(str, ct)),
                          data="hex:" + "a7" * (nel * xsz), buf=bnum + 1, req=bnum + 1)
                if kw["form"] == "vars":
                    kw["stride"] = ",".join(map(str, sd))
                sc.add("*", "iput", **kw)
            line = sc.add("*", "wait", f=0, coll=0, reqs="all")
        else:
            nel = sum(int(np.prod(b[1])) for b in boxes)
            kw = dict(f=0, v=2, mt=mtname, form="varn", num=len(boxes), starts=";".join(",".join(map(str, b[0])) for b in boxes),
                      counts=";".join(",".join(map(str, b[1])) for b in boxes), data="hex:" + "a7" * (nel * xsz))
            if how == "varn":
                line = sc.add("*", "put", coll=0, **kw)
            else:
                bnum = (bnum + 1) % 1000
                sc.add("*", "iput", buf=bnum + 1, req=bnum + 1, **kw)
                line = sc.add("*", "wait", f=0, coll=0, reqs="all")
        dline = sc.add("*", "fdiff", path=path, slot=0)
        reqs.append({"line": line, "wait": None, "diff": dline, "want": ["OK"], "isput": True, "els": allels, "form": "multi-" + how,
                     "start": [b[0] for b in boxes], "count": [b[1] for b in boxes], "stride": [b[2] for b in boxes]})
    sc.add("*", "end_indep", f=0)
    sc.add("*", "close", f=0)
    return Case("c15_m_%05d" % i, 1, sc.lines, env={}, meta={"reqs": reqs, "shape": shape, "isrec": isrec, "xsz": xsz, "version": version, "strict": False,
                                                            "kind": "multi-%s%dd" % ("rec" if isrec else "fix", nd), "feat": (version, "multi", isrec, nd)})


def gen_safe_case(rng, i, version, tier, EC):
    """safe mode, 2-3 ranks, collective puts on a fixed 2-D variable: a request that is invalid on ONE rank makes the call
    fail with the same (minimum) code on EVERY rank before any I/O: no byte of the file may change"""
    nprocs = rng.choice([2, 2, 3])
    lens = [rng.randint(2, 4), rng.randint(2, 4)]
    sc = Script()
    path = "s:@OUT@/c15.nc"
    sc.add("*", "create", f=0, path=path, cmode=FMT_CMODE[version], info="romio_ds_write:disable")
    sc.add("*", "def_dim", f=0, name="s:t", len=0)
    sc.add("*", "def_dim", f=0, name="s:d0", len=lens[0])
    sc.add("*", "def_dim", f=0, name="s:d1", len=lens[1])
    xt = rng.choice([3, 4, 5, 6])
    mtname = {3: "short", 4: "int", 5: "float", 6: "double"}[xt]
    xsz = cs.XSZ[xt]
    sc.add("*", "def_var", f=0, name="s:before", xtype=4, dimids="1", ndims=1)
    sc.add("*", "def_var", f=0, name="s:brec", xtype=3, dimids="0", ndims=1)
    sc.add("*", "def_var", f=0, name="s:target", xtype=xt, dimids="1,2", ndims=2)
    sc.add("*", "def_var", f=0, name="s:after", xtype=4, dimids="1", ndims=1)
    sc.add("*", "enddef", f=0)
    sc.add("*", "put", f=0, v=0, form="var", mt="int", coll=1, data="hex:" + "11" * 4 * lens[0])
    sc.add("*", "put", f=0, v=3, form="var", mt="int", coll=1, data="hex:" + "22" * 4 * lens[0])
    sc.add("*", "sync", f=0)
    sc.add("*", "barrier")
    sc.add(0, "snapshot", path=path, tag="init")
    sc.add(0, "fsnap", path=path, slot=0)
    sc.add("*", "barrier")
    shape = list(lens)
    reqs = []

    def one(valid):
        for _ in range(50):
            if valid:
                st = [rng.randint(0, L - 1) for L in shape]
                ct = [rng.randint(1, L - s0) for s0, L in zip(st, shape)]
                sd = None if rng.random() < 0.5 else [1, 1]
            else:
                st = [rng.randint(-1, L + 1) for L in shape]
                ct = [rng.randint(-1, L + 1) for L in shape]
                sd = rng.choice([None, None, [1, 1], [rng.choice([-1, 0, 1, 2]), rng.choice([0, 1, 2, 3])]])
            want = applicable(shape, False, 0, True, True, st, ct, sd)
            if len(want) == 1:
                return st, ct, sd, next(iter(want))
        return [0, 0], [1, 1], None, "OK"
    for g in range(40 if tier == "quick" else 200):
        plan = [one(valid=(r == 0 or rng.random() < 0.5)) for r in range(nprocs)]
        rng.shuffle(plan)
        lines = {}
        for r, (st, ct, sd, w) in enumerate(plan):
            nel = 1
            for c in ct:
                nel *= max(abs(c), 1)
            kw = dict(f=0, v=2, mt=mtname, coll=1, form="vars" if sd else "vara", start=",".join(map(str, st)), count=",".join(map(str, ct)), data="hex:" + "a7" * (nel * xsz))
            if sd:
                kw["stride"] = ",".join(map(str, sd))
            lines[r] = sc.add(r, "put", **kw)
        sc.add("*", "barrier")
        dline = sc.add(0, "fdiff", path=path, slot=0)
        sc.add("*", "barrier")
        codes = [w for (_, _, _, w) in plan]
        allok = all(w == "OK" for w in codes)
        els = []
        if allok:
            for (st, ct, sd, w) in plan:
                els += elements(shape, st, ct, sd)
        want_all = "OK" if allok else min((w for w in codes if w != "OK"), key=lambda n: EC[n])
        reqs.append({"lines": lines, "diff": dline, "want_all": want_all, "els": els, "plan": [(p_[0], p_[1], p_[2], p_[3]) for p_ in plan]})
    sc.add("*", "close", f=0)
    return Case("c15_s_%05d" % i, nprocs, sc.lines, env={"PNETCDF_SAFE_MODE": "1", "PNETCDF_RELAX_COORD_BOUND": "0"},
                meta={"safe_reqs": reqs, "reqs": [], "shape": shape, "isrec": False, "xsz": xsz, "version": version, "strict": True, "kind": "safe-coll", "feat": (version, "safe-coll", nprocs)})


class C15(Check):
    id = "C15"
    exhaustive = False
    rule = ("for variables of 1-2 dimensions with lengths 1-3 (fixed and record, 0-2 existing records, CDF-1/2/5, strict and relaxed "
            "coordinate-bound mode): every (start,count) in [-1,len+1]^2 of one dimension x stride in {NULL,-1,0,1,2,3} (other dimension "
            "sampled), through put/get x var1/vara/vars/varm/varn and iput/iget+wait.  Oracles: the return code belongs to the set the "
            "reference predicate allows (documented precedence coords > {edge, negative count} > stride; set-valued where undocumented); "
            "an in-process byte diff of the WHOLE file around every request: rejected, zero-length and read requests change no byte, an "
            "accepted put changes only bytes of the addressed elements of the target variable (offsets from the independently decoded "
            "header) and the numrecs field.  Plus groups of 2-4 valid, element-disjoint (interleaved, strided) nonblocking requests "
            "or varn sub-requests on 2-3 dimensional variables with pairwise different dimension lengths, completed by one wait: "
            "the aggregated write changes only the union of the addressed elements; and, in safe mode on 2-3 ranks, collective puts where "
            "some ranks pass invalid requests: every rank returns the minimum code and no byte changes.  distinct = distinct (form, put/get, outcome, kind, version, strict) tuples")
    assumptions = ["single requests are issued in independent mode on one process (error precedence in collective mode is C08's subject); the safe-mode section uses only requests whose reference outcome is a single code"]

    def generate(self, tier, rng):
        self.EC = load_error_codes(self.bld)
        n = int(os.environ.get("VERIF_N", 180)) if tier == "quick" else 800
        kinds = ["fix1d", "rec1d", "fix2d", "rec2d"]
        for i in range(n):
            yield gen_case(rng, i, [1, 2, 5][i % 3], kinds[(i // 3) % 4], strict=((i // 12) % 2 == 1), full_dim=0, tier=tier)
        for i in range(60 if tier == "quick" else 600):
            yield gen_multi_case(rng, i, [1, 2, 5][i % 3], tier)
        for i in range(12 if tier == "quick" else 120):
            yield gen_safe_case(rng, i, [1, 2, 5][i % 3], tier, self.EC)

    def features(self, res):
        return res.case.name

    def oracle(self, res):
        v = []
        m = res.case.meta
        EC = self.EC
        snap = os.path.join(res.outdir, "snap.init")
        if not os.path.exists(snap):
            return v
        b = open(snap, "rb").read()
        s, hl = cs.decode_header(b)
        tv = s.vars[2]
        rs = s.recsize()
        nn = 8 if s.version == 5 else 4
        ret = res.ret(0)
        for rq in m["reqs"]:
            e = ret.get(rq["line"])
            if e is None:
                continue
            self.count("requests_checked")
            got = e.geti("err")
            names = rq["want"]
            allowed = {0 if x == "OK" else EC[x] for x in names}
            api = e.kv.get("api", e.op)
            outcome = "OK" if got == 0 else next((k for k in ("EINVALCOORDS", "EEDGE", "ESTRIDE", "ENEGATIVECNT") if EC[k] == got), str(got))
            self.features_seen.add((rq["form"], rq["isput"], outcome, m["kind"], m["version"], m["strict"]))
            if got not in allowed:
                v.append(Violation("err|%s|got=%s|want=%s" % (rq["form"] + ("-put" if rq["isput"] else "-get"), outcome, "+".join(names)),
                                   "%s start=%s count=%s stride=%s on shape %s (%s, numrecs tracked) returned %s, reference predicate allows %s" % (
                                       api, rq["start"], rq["count"], rq["stride"], m["shape"], m["kind"], outcome, names), res))
            d = ret.get(rq["diff"])
            if d is None:
                continue
            self.count("file_diffs")
            ranges = []
            if d.kv.get("ranges"):
                for r in d.kv["ranges"].split(","):
                    a, c = r.split("-")
                    ranges.append((int(a), int(c)))
            if got != 0 or not rq["isput"]:
                if ranges:
                    v.append(Violation("stray|%s|%s" % ("rejected" if got != 0 else "read", rq["form"]),
                                       "%s start=%s count=%s stride=%s returned %s but changed file bytes %s" % (api, rq["start"], rq["count"], rq["stride"], outcome, ranges[:5]), res))
                continue
            allowed_bytes = set(range(4, 4 + nn))
            for el in rq["els"]:
                if m["isrec"]:
                    off = tv.begin + el[0] * rs
                    lin = 0
                    for k in range(1, len(el)):
                        lin = lin * m["shape"][k] + el[k]
                    off += lin * m["xsz"]
                else:
                    lin = 0
                    for k in range(len(el)):
                        lin = lin * m["shape"][k] + el[k]
                    off = tv.begin + lin * m["xsz"]
                allowed_bytes.update(range(off, off + m["xsz"]))
            for (a, c) in ranges:
                bad = [x for x in range(a, c) if x not in allowed_bytes]
                if bad:
                    v.append(Violation("stray|accepted|%s" % rq["form"], "%s start=%s count=%s stride=%s changed byte %d (ranges %s) outside the addressed elements of the target variable (begin %d)" % (
                        api, rq["start"], rq["count"], rq["stride"], bad[0], ranges[:5], tv.begin), res))
                    break
        for rq in m.get("safe_reqs", []):
            want = 0 if rq["want_all"] == "OK" else EC[rq["want_all"]]
            self.count("safe_mode_groups")
            for r, line in rq["lines"].items():
                e = res.ret(r).get(line)
                if e is None:
                    continue
                self.features_seen.add(("safe-coll", rq["want_all"], m["version"]))
                if e.geti("err") != want:
                    v.append(Violation("safe|err|got=%s|want=%s" % (e.kv.get("err"), rq["want_all"]), "safe mode, collective put, per-rank requests %s: rank %d returned %s, every rank must return %s" % (
                        rq["plan"], r, e.kv.get("err"), rq["want_all"]), res))
            d = ret.get(rq["diff"])
            if d is None:
                continue
            ranges = []
            if d.kv.get("ranges"):
                for x in d.kv["ranges"].split(","):
                    a_, c_ = x.split("-")
                    ranges.append((int(a_), int(c_)))
            allowed_bytes = set()
            for el in rq["els"]:
                off = tv.begin + (el[0] * m["shape"][1] + el[1]) * m["xsz"]
                allowed_bytes.update(range(off, off + m["xsz"]))
            for (a_, c_) in ranges:
                bad = [x for x in range(a_, c_) if x not in allowed_bytes]
                if bad:
                    v.append(Violation("safe|stray|%s" % ("rejected" if want else "accepted"), "safe mode, collective put, per-rank requests %s (expected %s): file byte %d changed (ranges %s)" % (
                        rq["plan"], rq["want_all"], bad[0], ranges[:5]), res))
                    break
        return v
