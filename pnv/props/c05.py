"""C05 -- record count stays coherent across processes, memory and file header."""
import os, struct
import numpy as np
from ..core import Check, Violation
from ..runner import Case
from ..dataprog import NBProg, check_final_file, select
from ..model import check_expectations, Expect, XT2MEM
from .. import cdfspec as cs


class RecProg(NBProg):
    """NBProg + per-rank record-count model"""

    def rec_init(self):
        self.L = [0] * self.np          # each rank's view of the record count
        self.hdr = 0                    # value the file header must hold (valid at sync points)
        self.nprobe = 0

    def probe(self, exact=True, what=""):
        """inq_dimlen(unlimited) on every rank"""
        for r in range(self.np):
            ex = Expect(0, kv={"val": self.L[r]}, what="record count on rank %d %s" % (r, what))
            ex.tag = "numrecs|" + what.split(" ")[0]
            self.emit(r, "inq", ex, f=self.f, what="numrecs")
            self.nprobe += 1

    def probe_header(self, what):
        """after a barrier rank 0 reads the numrecs field straight from the file"""
        self.emit("*", "barrier")
        n = 8 if self.version == 5 else 4
        want = struct.pack(">Q" if n == 8 else ">I", self.hdr).hex()
        ex = Expect(None, kv={"hex": want}, what="numrecs field in the file header " + what)
        ex.tag = "numrecs|header|" + what.split(" ")[0]
        self.emit(0, "pread", ex, path="s:" + self.path, off=4, len=n)
        self.emit("*", "barrier")

    def sync_all(self, what):
        m = max(self.L)
        self.L = [m] * self.np
        self.hdr = m
        self.fm.numrecs = max(self.fm.numrecs, m)

    def pick_s0(self):
        cur = min(max(self.L), 24)
        return self.rng.choice([0, max(0, cur - 1), cur, cur + self.rng.randint(0, 3), self.rng.randint(0, cur + 3)])

    def rec_box(self, v, rank, parts, s0=None):
        """(start,count,stride) for `rank` on record variable v, disjoint from the other ranks' boxes of the same call
        (all ranks of one call must pass the same s0)"""
        rng = self.rng
        nd = v.ndims
        if s0 is None:
            s0 = self.pick_s0()
        c0 = rng.randint(1, 3)
        st = [s0] + [0] * (nd - 1)
        ct = [c0] + [1] * (nd - 1)
        sd = [rng.choice([1, 1, 2])] + [1] * (nd - 1)
        fixed = v.shape
        # split the first fixed dimension (if long enough) among ranks, else interleave records
        if nd > 1 and fixed[0] >= parts:
            per = fixed[0] // parts
            st[1] = rank * per
            ct[1] = rng.randint(1, per)
            for k in range(2, nd):
                L = fixed[k - 1]
                st[k] = rng.randint(0, L - 1)
                ct[k] = rng.randint(1, L - st[k])
        else:
            st[0] = (s0 // parts) * parts + rank     # records congruent to rank modulo parts: disjoint across ranks
            sd[0] = parts * rng.choice([1, 2])
            for k in range(1, nd):
                L = fixed[k - 1]
                st[k] = rng.randint(0, L - 1)
                ct[k] = rng.randint(1, L - st[k])
        return st, ct, sd

    @staticmethod
    def end_of(st, ct, sd):
        return st[0] + (ct[0] - 1) * sd[0] + 1 if ct[0] > 0 else 0


def gen_case(rng, i, nprocs):
    hints = []
    if nprocs > 1 and rng.random() < 0.3:
        hints.append("nc_num_aggrs_per_node:%d" % rng.randint(1, nprocs - 1))      # intra-node aggregation has its own record-count update
    if rng.random() < 0.15:
        hints.append("romio_no_indep_rw:true")                                      # header (numrecs) written collectively
    p = RecProg(rng, nprocs, "@OUT@/c05.nc", info=";".join(hints) or None)
    p.create()
    p.random_schema(maxlen=4, maxdims=3, nrec=rng.choice([1, 1, 2, 3]), maxvars=4)
    recvars = [k for k, v in enumerate(p.fm.vars) if v.isrec]
    if not recvars:
        d = p.fm.unlimdim()
        if d < 0:
            return None
        recvars = [p.def_var(b"rv", rng.choice([4, 5, 6]), [d])]
    p.rec_init()
    if rng.random() < 0.2:
        p.emit("*", "delay", seed=rng.randint(1, 1 << 30), max_us=rng.choice([200, 1000, 3000]))
    p.enddef()
    p.probe(what="after-enddef")
    nsteps = rng.randint(5, 12)
    for step in range(nsteps):
        k = rng.random()
        vid = rng.choice(recvars)
        v = p.fm.vars[vid]
        if k < 0.35:
            # collective blocking put by all ranks (some zero-length)
            ends = []
            s0 = p.pick_s0()
            for r in range(nprocs):
                if rng.random() < 0.25:
                    st, ct, sd = p.zero_request(v)
                    p.one_access("put", r, vid, st, ct, sd, True, form=rng.choice(["vara", "vars"]))
                    ends.append(0)
                else:
                    st, ct, sd = p.rec_box(v, r, nprocs, s0)
                    p.one_access("put", r, vid, st, ct, sd, True, fam="std")
                    ends.append(p.end_of(st, ct, sd))
            m = max(max(p.L), max(ends))
            p.L = [m] * nprocs
            p.hdr = m
            p.probe(what="after-collective-put")
            p.probe_header("after-collective-put")
        elif k < 0.6:
            # independent section: puts and nonblocking puts with independent waits
            p.begin_indep()
            p.probe(what="after-begin-indep")
            for _ in range(rng.randint(1, 5)):
                r = rng.randrange(nprocs)
                vid2 = rng.choice(recvars)
                v2 = p.fm.vars[vid2]
                st, ct, sd = p.rec_box(v2, r, nprocs)
                idx = select(st, ct, sd)
                keys = p._keys(idx, v2.ndims)
                if not p.region_free(vid2, keys, True):
                    continue
                if rng.random() < 0.6:
                    p.one_access("put", r, vid2, st, ct, sd, False, fam="std")
                    p.L[r] = max(p.L[r], p.end_of(st, ct, sd))
                else:
                    q = p.post(rng.choice(["iput", "iput", "bput"]), r, vid2, st, ct, sd, fam="std")
                    if q is not None and rng.random() < 0.8:
                        p.complete("wait", False, {r: [q]})
                        p.L[r] = max(p.L[r], q["maxrec"])
                p.probe(what="in-indep-mode")
                if rng.random() < 0.25:
                    op = rng.choice(["sync", "sync_numrecs"])
                    p.all_ok(op)
                    p.sync_all(op)
                    p.probe(what="after-" + op)
                    p.probe_header("after-" + op)
            p.end_indep()
            p.sync_all("end_indep")
            p.probe(what="after-end-indep")
            p.probe_header("after-end-indep")
        elif k < 0.8:
            # nonblocking puts completed by a collective wait_all with partial subsets
            for r in range(nprocs):
                for _ in range(rng.randint(0, 2)):
                    vid2 = rng.choice(recvars)
                    st, ct, sd = p.rec_box(p.fm.vars[vid2], r, nprocs)
                    p.post(rng.choice(["iput", "iput", "bput"]), r, vid2, st, ct, sd, fam=rng.choice(["std", "std", "varn"]) if all(x == 1 for x in sd) else "std")
            choice = {}
            ends = []
            for r in range(nprocs):
                pend = p.pending[r]
                sub = rng.sample(pend, rng.randint(0, len(pend))) if rng.random() < 0.6 else list(pend)
                rng.shuffle(sub)
                choice[r] = sub if rng.random() < 0.8 else ("all" if sub == pend or True else sub)
                done = pend if choice[r] == "all" else sub
                ends.append(max([q["maxrec"] for q in done if q["kind"] != "iget"] + [0]))
            p.complete("wait", True, choice)
            m = max(max(p.L), max(ends))
            p.L = [m] * nprocs
            p.hdr = m
            p.probe(what="after-wait_all")
            p.probe_header("after-wait_all")
        elif k < 0.9:
            p.redef()
            p.sync_all("redef")
            if rng.random() < 0.5:
                p.emit("*", "put_att", Expect(0), f=p.f, v=-1, name="s:a%d" % step, mt="int", xtype=4, n=1, data="hex:01000000")
                from ..cdfspec import Att
                p.fm.gatts.append(Att(b"a%d" % step, 4, np.array([1], dtype="<i4")))
            p.enddef()
            p.probe(what="after-redef-enddef")
            p.probe_header("after-redef-enddef")
        else:
            # read the highest record everywhere (must be readable on every rank after a sync point)
            p.sync3()
            m = max(p.L)
            if m > 0:
                for r in range(nprocs):
                    st = [m - 1] + [0] * (v.ndims - 1)
                    ct = [1] + list(v.shape)
                    p.one_access("get", r, vid, st, ct, [1] * v.ndims, True, fam="std", mt=XT2MEM[v.xtype])
            p.probe(what="after-read")
    # complete what is left, close, reopen
    p.complete("wait", True, {r: "all" for r in range(nprocs)})
    ends = [0]
    m = max(max(p.L), p.fm.numrecs)
    p.L = [m] * nprocs
    p.hdr = m
    p.probe(what="after-final-wait_all")
    for r in range(nprocs):
        if p.abuf[r] is not None:
            p.detach(r)
    p.close()
    p.probe_header("after-close")
    p.reopen(omode=0)
    p.probe(what="after-reopen")
    p.read_all()
    p.close()
    p.emit("*", "barrier")
    p.emit(0, "snapshot", path="s:@OUT@/c05.nc", tag="final")
    p.emit("*", "balance", final=1)
    return Case("c05_%05d" % i, nprocs, p.s.lines, meta={"expect": p.expect, "fm": p.fm, "feat": p.feat, "nprobe": p.nprobe})


class C05(Check):
    id = "C05"
    rule = ("histories (5-12 steps) of collective puts, independent puts, nonblocking puts with independent wait and collective "
            "wait_all (partial subsets), sync / sync_numrecs / end_indep_data / redef+enddef / close+reopen on 1-3 record variables "
            "by 2-6 ranks with sparse, descending and rewritten record indices and injected delays; the unlimited dimension length "
            "is read on EVERY rank after EVERY step and compared with a per-rank record-count model, and at every synchronisation "
            "point rank 0 reads the numrecs field straight from the file; distinct = distinct (step kind, nprocs) tuples and access tuples")
    assumptions = ["in independent mode a rank's count equals max(previous count, 1 + highest record it completed itself)",
                   "fill_var_rec is exercised by C16"]

    def generate(self, tier, rng):
        n = int(os.environ.get("VERIF_N", 220)) if tier == "quick" else 3000
        i = 0
        while i < n:
            nprocs = rng.choice([2, 2, 3, 4] if tier == "quick" else [2, 3, 4, 5, 6, 8])
            c = gen_case(rng, i, nprocs)
            if c is not None:
                yield c
                i += 1

    def features(self, res):
        for f in res.case.meta["feat"]:
            self.features_seen.add(f)
        return res.case.name

    def oracle(self, res):
        v = check_expectations(res, res.case.meta["expect"])
        self.count("record_count_probes", res.case.meta["nprobe"])
        # monotonicity: a rank's count never decreases while the file is open
        for rank, evs in enumerate(res.logs):
            last = -1
            for e in evs:
                if e.kind == "R" and e.op == "close":
                    last = -1
                if e.kind == "R" and e.op == "inq" and e.kv.get("what") == "numrecs" and e.geti("err") == 0:
                    x = e.geti("val")
                    if x < last:
                        v.append(Violation("numrecs|decreased", "record count on rank %d went from %d to %d at line %d" % (rank, last, x, e.line), res))
                    last = x
        snap = os.path.join(res.outdir, "snap.final")
        if os.path.exists(snap):
            v += check_final_file(open(snap, "rb").read(), res.case.meta["fm"], res)
        return v
