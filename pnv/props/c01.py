"""C01 -- blocking put/get round-trip fidelity for every access pattern."""
import os
from ..core import Check, Violation
from ..runner import Case
from ..dataprog import Prog, check_final_file
from ..model import check_expectations


def gen_case(rng, i, nprocs, big=False, nops=None):
    hints = []
    if rng.random() < 0.3:
        hints.append("nc_ibuf_size:%d" % rng.choice([1, 16, 64, 512]))
    if rng.random() < 0.5:
        hints.append("nc_in_place_swap:%s" % rng.choice(["enable", "enable", "disable", "auto"]))
    if rng.random() < 0.2:
        hints.append("nc_var_align_size:%d" % rng.choice([1, 4, 8, 64, 512]))
    if rng.random() < 0.15:
        hints.append("nc_record_align_size:%d" % rng.choice([4, 8, 64, 512]))
    if nprocs > 1 and rng.random() < 0.25:
        hints.append("nc_num_aggrs_per_node:%d" % rng.randint(1, nprocs))     # intra-node write aggregation: another write path
    p = Prog(rng, nprocs, "@OUT@/c01.nc", info=";".join(hints) or None)
    p.create()
    p.random_schema(maxlen=(40 if big else 5), maxdims=(3 if big else 4))
    p.enddef()
    dirty = False
    for _ in range(nops or rng.randint(4, 12)):
        r = rng.random()
        vid = rng.randrange(len(p.fm.vars))
        if r < 0.45:
            p.coll_put(vid)
            dirty = True
        elif r < 0.75:
            if dirty:
                p.sync3()
                dirty = False
            p.coll_get(vid)
        elif r < 0.9:
            if dirty:
                p.sync3()
                dirty = False
            p.indep_ops(rng.randint(1, 6))
            p.sync3()
        else:
            p.sync3()
            dirty = False
            p.read_all()
    p.sync3()
    p.read_all()
    p.close()
    p.reopen(omode=rng.choice([0, 1]))
    p.read_all()
    p.close()
    p.emit("*", "barrier")
    p.emit(0, "snapshot", path="s:@OUT@/c01.nc", tag="final")
    p.emit("*", "balance", final=1)
    c = Case("c01_%05d" % i, nprocs, p.s.lines, meta={"expect": p.expect, "fm": p.fm, "feat": p.feat, "nel": p.nelems_checked})
    return c


class C01(Check):
    id = "C01"
    rule = ("random schema (CDF-1/2/5, 0-5 dims, fixed+record vars, all external types) and 4-12 random blocking put/get "
            "operations (var/var1/vara/vars/varm/varn, typed x 12 memory types and flexible with derived MPI datatypes, "
            "collective with disjoint decomposition incl. zero-length ranks, independent), full read-back in session, after "
            "reopen, and independent decode of the raw file; distinct = distinct (kind, form, ndims, record?, conversion "
            "class, buftype kind, coll/indep, nprocs, imap?) tuples exercised")
    assumptions = ["values are drawn from the range representable in both memory and external type (range errors are C09's)",
                   "cross-rank reads happen only after sync;barrier;sync (doc/README.consistency.md)",
                   "never-written elements are not asserted"]

    def generate(self, tier, rng):
        n = int(os.environ.get("VERIF_N", 320)) if tier == "quick" else 4000
        maxp = 4 if tier == "quick" else 8
        for i in range(n):
            nprocs = rng.choice([1, 2, 2, 3, 4] if maxp == 4 else [1, 2, 3, 4, 5, 6, 8])
            yield gen_case(rng, i, nprocs, big=(i % 8 == 7))

    def features(self, res):
        for f in res.case.meta["feat"]:
            self.features_seen.add(f)
        return next(iter(res.case.meta["feat"]), res.case.name)

    def oracle(self, res):
        v = check_expectations(res, res.case.meta["expect"])
        self.count("elements_compared", res.case.meta["nel"])
        snap = os.path.join(res.outdir, "snap.final")
        if os.path.exists(snap):
            b = open(snap, "rb").read()
            self.count("file_bytes_decoded", len(b))
            v += check_final_file(b, res.case.meta["fm"], res)
        elif res.finished():
            v.append(Violation("nofile", "no final file", res))
        return v
