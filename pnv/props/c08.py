"""C08 -- collective calls match on all ranks: no deadlock, errors stay local."""
import os, itertools
import numpy as np
from ..core import Check, Violation
from ..runner import Case
from ..dataprog import NBProg, select
from ..model import check_expectations, Expect, XT2MEM, E, load_error_codes
from .. import cdfspec as cs

COLL_CLASS = {"WCOLL_AT": "W", "WCOLL": "W", "RCOLL_AT": "R", "RCOLL": "R", "ALLREDUCE": "ALLREDUCE", "BCAST": "BCAST",
              "BARRIER": "BARRIER", "SETVIEW": "SETVIEW", "FSYNC": "FSYNC", "FOPEN": "FOPEN", "FCLOSE": "FCLOSE", "FSETSIZE": "FSETSIZE",
              "GATHER": "GATHER", "GATHERV": "GATHERV", "ALLGATHER": "ALLGATHER", "ALLGATHERV": "ALLGATHERV", "ALLTOALL": "ALLTOALL",
              "REDUCE": "REDUCE", "COMM_DUP": "COMM_DUP", "COMM_SPLIT": "COMM_SPLIT", "COMM_SPLIT_TYPE": "COMM_SPLIT_TYPE", "SCAN": "SCAN", "EXSCAN": "EXSCAN"}

ROLES = ["valid", "zero", "coords", "edge", "stride", "negcount", "echar", "varid"]
ROLE_ERR = {"valid": 0, "zero": 0, "coords": "EINVALCOORDS", "edge": "EEDGE", "stride": "ESTRIDE", "negcount": "ENEGATIVECNT",
            "echar": "ECHAR", "varid": "ENOTVAR"}


def seq_of(res, rank, lines):
    out = []
    for e in res.logs[rank]:
        if e.kind == "M" and e.line in lines:
            c = COLL_CLASS.get(e.op)
            if c:
                if c == "BCAST":
                    c += "(%s)" % e.kv.get("root")
                out.append(c)
    return out


class Gen:
    def __init__(self, rng, nprocs, safe, aggr, i, hcoll=False):
        self.rng, self.np = rng, nprocs
        hints = []
        if aggr:
            hints.append("nc_num_aggrs_per_node:%d" % aggr)
        if hcoll:
            hints.append("romio_no_indep_rw:true")         # the header (and record count) is then written collectively
        self.p = p = NBProg(rng, nprocs, "@OUT@/c08.nc", version=rng.choice([1, 2, 5]), info=";".join(hints) or None)
        self.groups = []      # dicts: lines {rank: line}, api, kind, roles, var
        self.safe = safe
        p.create()
        p.def_dim(b"rec", 0)
        p.def_dim(b"y", 2 * nprocs)
        p.def_dim(b"x", 4)
        self.F = p.def_var(b"fix", 4, [1, 2])
        self.R = p.def_var(b"rec2", 5, [0, 2])
        self.C = p.def_var(b"txt", 2, [1, 2])
        self.R1 = p.def_var(b"rec1", 3, [0])
        p.enddef()
        # seed data: two records everywhere
        for vid in (self.F, self.R, self.C, self.R1):
            v = p.fm.vars[vid]
            for r in range(nprocs):
                st, ct, sd = self.own_box(vid, r, full=True, base_rec=0, nrec=2)
                p.one_access("put", r, vid, st, ct, sd, True, form="vara", mt=XT2MEM[v.xtype])
        p.sync3()

    def own_box(self, vid, r, full=False, base_rec=None, nrec=None):
        """a box inside rank r's private part of variable vid"""
        p, rng = self.p, self.rng
        v = p.fm.vars[vid]
        if vid in (self.F, self.C):
            y0 = 2 * r
            if full:
                return [y0, 0], [2, 4], [1, 1]
            ys = rng.randint(0, 1)
            x0 = rng.randint(0, 3)
            return [y0 + ys, x0], [rng.randint(1, 2 - ys), rng.randint(1, 4 - x0)], [1, 1]
        if vid == self.R:
            # private columns? only 4 columns: give each rank private *records* (congruent to r modulo np)
            br = base_rec if base_rec is not None else rng.randint(0, p.fm.numrecs + 1)
            rec = (br // self.np) * self.np + r
            if full:
                return [r if nrec else rec, 0], [1, 4], [1, 1]
            x0 = rng.randint(0, 3)
            return [rec, x0], [1, rng.randint(1, 4 - x0)], [1, 1]
        br = base_rec if base_rec is not None else rng.randint(0, p.fm.numrecs + 1)
        rec = (br // self.np) * self.np + r
        return [r if nrec else rec], [1], [1]

    def putget_group(self, kind, vid, roles, form):
        """one collective put/get call: ranks play roles"""
        p, rng = self.p, self.rng
        v = p.fm.vars[vid]
        lines = {}
        roles = list(roles)
        plan = []
        for r, role in enumerate(roles):
            st, ct, sd = self.own_box(vid, r)
            if kind == "get":
                # reads must stay inside the existing records
                if v.isrec:
                    st[0] = min(st[0], max(p.fm.numrecs - 1, 0))
            if kind == "get":      # every stored value is representable in double: no range error possible
                mt = XT2MEM[v.xtype] if rng.random() < 0.5 else ("text" if v.xtype == 2 else "double")
            else:
                mt = XT2MEM[v.xtype] if rng.random() < 0.5 else ("text" if v.xtype == 2 else rng.choice(["int", "double", "short", "longlong"]))
            usevid = vid
            f = form
            if role == "zero":
                ct = [0] * len(ct)
            elif role == "coords":
                k = len(st) - 1
                if v.isrec and k == 0:
                    st[0] = -1 if kind == "put" or rng.random() < 0.5 else p.fm.numrecs + rng.randint(1, 3)
                else:
                    st[k] = v.shape[-1] + rng.randint(1, 3) if rng.random() < 0.7 else -1
            elif role == "edge":
                k = len(st) - 1
                if v.isrec and k == 0:
                    if kind == "get":
                        ct[0] = p.fm.numrecs - st[0] + rng.randint(1, 3)
                    else:
                        role = "negcount"
                        ct[0] = -1
                else:
                    ct[k] = v.shape[-1] - st[k] + rng.randint(1, 3)
            elif role == "stride":
                sd = [rng.choice([0, -1])] + list(sd[1:]) if rng.random() < 0.5 else list(sd[:-1]) + [0]
                f = rng.choice(["vars", "varm"])
            elif role == "negcount":
                ct[-1] = -rng.randint(1, 3)
            elif role == "echar":
                mt = "int" if v.xtype == 2 else "text"
            elif role == "varid":
                usevid = rng.choice([len(p.fm.vars), len(p.fm.vars) + 5, -2])
            roles[r] = role
            plan.append((r, usevid, st, ct, sd, f, mt, role))
        codes = [0 if ROLE_ERR[x] == 0 else self.EC[ROLE_ERR[x]] for x in roles]
        self._cur_anybad = any(c != 0 for c in codes)
        self._cur_minerr = min(codes)
        for (r, usevid, st, ct, sd, f, mt, role) in plan:
            lines[r] = self.emit_raw(kind, r, usevid, vid, st, ct, sd, f, mt, role)
        self.groups.append({"lines": lines, "kind": kind, "roles": list(roles), "var": v.name.decode(), "form": form, "codes": codes})
        return lines

    def emit_raw(self, kind, r, usevid, vid, st, ct, sd, form, mt, role):
        """emit a (possibly invalid) put/get line with an explicit expectation; valid/zero roles go through the model"""
        p = self.p
        v = p.fm.vars[vid]
        err = 0 if ROLE_ERR[role] == 0 else self.EC[ROLE_ERR[role]]
        anybad = getattr(self, "_cur_anybad", False)
        minerr = getattr(self, "_cur_minerr", 0)
        if role in ("valid", "zero"):
            if self.safe and anybad:
                # safe mode: every rank returns the smallest error code and nothing is transferred
                kw = p.access_args(form, st, ct, sd, None)
                nelem = int(np.prod(ct))
                if kind == "put":
                    vals, buf, bufcount, nbytes = p.mem_for_write(v, nelem, ct, form, mt, None, None)
                    return p.emit(r, "put", Expect(minerr, what="safe mode: all ranks get the same error (%s)" % role), f=p.f, v=usevid, form=form, mt=mt, coll=1,
                                  data="hex:" + buf.tobytes().hex(), **kw)
                ex = Expect(minerr, what="safe mode: all ranks get the same error (%s)" % role)
                return p.emit(r, "get", ex, f=p.f, v=usevid, form=form, mt=mt, coll=1, nbytes=max(nelem, 1) * 8, **kw)
            line, _ = p.one_access(kind, r, vid, st, ct, sd, True, form=form, mt=mt)
            return line
        want = minerr if self.safe else err
        kw = p.access_args(form, st, ct, sd, None)
        nel = 1
        for c in ct:
            nel *= max(abs(c), 1)
        if kind == "put":
            return p.emit(r, "put", Expect(want, what="role %s" % role), f=p.f, v=usevid, form=form, mt=mt, coll=1,
                          data="hex:" + ("11" * (nel * 8)), **kw)
        return p.emit(r, "get", Expect(want, what="role %s" % role), f=p.f, v=usevid, form=form, mt=mt, coll=1, nbytes=nel * 8 + 8, **kw)

    def do_putget(self, kind, vid, roles, form):
        codes = [0 if ROLE_ERR[x] == 0 else self.EC[ROLE_ERR[x]] for x in roles]
        self._cur_anybad = any(c != 0 for c in codes)
        self._cur_minerr = min(codes)
        return self.putget_group(kind, vid, roles, form)


def wait_group(g, rng):
    """collective wait_all with different numbers (incl. zero) of pending requests per rank, some of which grow the record
    count and some not; every rank names all, only its puts, or none of its requests"""
    p = g.p
    for r in range(g.np):
        for _ in range(rng.choice([0, 0, 1, 1, 2, 3])):
            vid = rng.choice([g.F, g.R, g.R, g.R1])
            st, ct, sd = g.own_box(vid, r)
            p.post(rng.choice(["iput", "iput", "iget"]) if st[0] < max(p.fm.numrecs, 1) or not p.fm.vars[vid].isrec else "iput", r, vid, st, ct, sd, form=rng.choice(["vara", "vars"]))
    choice = {r: rng.choice(["all", "all", "all", "allput", "none"]) for r in range(g.np)}
    n0 = len(p.s.lines)
    p.complete("wait", True, choice)
    lines = {}
    for k in range(n0, len(p.s.lines)):
        parts = p.s.lines[k].split(" ")
        if len(parts) > 1 and parts[1] == "wait" and parts[0].isdigit():
            lines[int(parts[0])] = k + 1
    if len(lines) == g.np:
        g.groups.append({"lines": lines, "kind": "wait_all", "roles": [choice[r] + ":%d" % len(p.pending[r]) for r in range(g.np)], "var": "-", "form": "-", "codes": None})
    if any(p.pending[r] for r in range(g.np)):
        # what was left pending is completed by a second wait_all (again with different counts per rank)
        n0 = len(p.s.lines)
        p.complete("wait", True, {r: "all" for r in range(g.np)})
        lines = {}
        for k in range(n0, len(p.s.lines)):
            parts = p.s.lines[k].split(" ")
            if len(parts) > 1 and parts[1] == "wait" and parts[0].isdigit():
                lines[int(parts[0])] = k + 1
        if len(lines) == g.np:
            g.groups.append({"lines": lines, "kind": "wait_all", "roles": ["rest"] * g.np, "var": "-", "form": "-", "codes": None})


def gen_case(rng, i, nprocs, safe, aggr, EC, roles_plan=None, known_hang=False):
    g = Gen.__new__(Gen)
    g.EC = EC
    hcoll = (not roles_plan) and (not known_hang) and rng.random() < 0.3
    Gen.__init__(g, rng, nprocs, safe, aggr, i, hcoll=hcoll)
    p = g.p
    nops = 1 if known_hang else 8
    for k in range(nops):
        if not known_hang and not roles_plan and rng.random() < 0.3:
            wait_group(g, rng)
            p.sync3()
            continue
        vid = rng.choice([g.F, g.R, g.R, g.C, g.R1])
        v = p.fm.vars[vid]
        kind = rng.choice(["put", "put", "get"])
        form = rng.choice(["vara", "vars", "varm"])
        if roles_plan:
            roles = list(roles_plan[k % len(roles_plan)])
        else:
            roles = [rng.choice(ROLES) if rng.random() < 0.45 else "valid" for _ in range(nprocs)]
        if known_hang:
            vid, kind, roles = g.R, "put", ["varid"] + ["valid"] * (nprocs - 1)
            v = p.fm.vars[vid]
        elif kind == "put" and v.isrec and not safe:
            # known finding (kept in one dedicated case): a rank with an invalid variable id cannot know that the
            # others will synchronise the record count -> deadlock.  Everywhere else use another error role.
            roles = [("coords" if x == "varid" else x) for x in roles]
        g.do_putget(kind, vid, roles, form)
        p.sync3()
        # everybody reads the variable back: good ranks' data must be there, erring ranks' not
        if rng.random() < 0.5:
            for r in range(nprocs):
                shape = p.shape_now(v)
                if min(shape) > 0:
                    p.one_access("get", r, vid, [0] * len(shape), list(shape), [1] * len(shape), True, form="vara", mt=XT2MEM[v.xtype])
    if any(p.pending[r] for r in range(nprocs)):
        p.complete("wait", True, {r: "all" for r in range(nprocs)})
    p.close()
    p.emit("*", "balance", final=1)
    env = {"PNETCDF_SAFE_MODE": "1"} if safe else {}
    return Case("c08_%05d" % i, nprocs, p.s.lines, env=env, timeout=(20 if known_hang else 120), meta={"expect": p.expect, "groups": g.groups, "feat": p.feat, "safe": safe, "aggr": aggr, "hcoll": hcoll})


class C08(Check):
    id = "C08"
    rule = ("collective put/get *_all (vara/vars/varm, typed) on a fixed, a 2-D record, a 1-D record and a text variable with every rank "
            "playing a role from {valid, zero-length, invalid coords, edge, stride, negative count, char mismatch, bad varid}, and collective "
            "wait_all with 0-3 pending iput/iget per rank (record-growing or not) naming all / only puts / none of them; 2-5 ranks "
            "(all role assignments enumerated for 2 ranks), safe mode on/off, intra-node aggregation on/off, collective header I/O (romio_no_indep_rw) on/off, injected delays; oracle: the "
            "per-rank sequences of MPI collectives issued by the library inside one API call are identical on all ranks (PMPI shim), every "
            "rank returns, erring ranks get their own error / good ranks NC_NOERR and their data is stored (read back), safe mode returns "
            "the same code everywhere; distinct = distinct (kind, form, variable, sorted roles, nprocs, safe, aggr) tuples")
    assumptions = ["all ranks call the same API function of one family in a collective step",
                   "MPI_File_{read,write}_all and _at_all are one equivalence class (the library pairs them deliberately)"]

    def generate(self, tier, rng):
        from ..model import load_error_codes
        EC = load_error_codes(self.bld)
        n = int(os.environ.get("VERIF_N", 150)) if tier == "quick" else 2500
        i = 0
        # exhaustive role pairs on 2 ranks (64 pairs -> 8 cases of 8 ops)
        pairs = list(itertools.product(ROLES, ROLES))
        for k in range(0, len(pairs), 8):
            yield gen_case(rng, i, 2, safe=False, aggr=0, EC=EC, roles_plan=pairs[k:k + 8])
            i += 1
        if tier != "quick":
            triples = list(itertools.product(ROLES, ROLES, ROLES))
            for k in range(0, len(triples), 8):
                yield gen_case(rng, i, 3, safe=False, aggr=0, EC=EC, roles_plan=triples[k:k + 8])
                i += 1
        yield gen_case(rng, i, 2, False, 0, EC, known_hang=True)
        i += 1
        while i < n:
            nprocs = rng.choice([2, 3, 4, 5] if tier == "quick" else [2, 3, 4, 5, 7])
            safe = rng.random() < 0.25
            aggr = rng.choice([0, 0, 0, 1, 2, 3]) if not safe else 0
            yield gen_case(rng, i, nprocs, safe, aggr, EC)
            i += 1

    def features(self, res):
        for gp in res.case.meta["groups"]:
            self.features_seen.add((gp["kind"], gp["form"], gp["var"], tuple(sorted(gp["roles"])), res.case.nprocs, res.case.meta["safe"], res.case.meta["aggr"]))
        return res.case.name

    def group_key(self, gp, res):
        bad = sorted(set(x for x in gp["roles"] if x not in ("valid",)))
        return "%s|%s|%s|%s|safe=%d|aggr=%d" % (gp["kind"], gp["form"], gp["var"], "+".join(bad) or "valid", int(res.case.meta["safe"]), int(bool(res.case.meta["aggr"])))

    def hang_site(self, res, oc):
        # name the API call (group) in which some rank is stuck
        for gp in res.case.meta.get("groups", []):
            for r, e in enumerate(oc):
                if e is not None and gp["lines"].get(r) == e.line:
                    return self.group_key(gp, res)
        return Check.hang_site(self, res, oc)

    def oracle(self, res):
        v = check_expectations(res, res.case.meta["expect"])
        for gp in res.case.meta["groups"]:
            seqs = []
            for r in range(res.case.nprocs):
                seqs.append(seq_of(res, r, {gp["lines"][r]}))
            self.count("collective_calls_compared")
            self.count("collective_events_compared", sum(len(s) for s in seqs))
            if any(s != seqs[0] for s in seqs):
                v.append(Violation("collseq|" + self.group_key(gp, res), "ranks issued different collective sequences inside one %s call on %s (roles %s): %s" % (
                    gp["kind"], gp["var"], gp["roles"], " | ".join("r%d:%s" % (r, ",".join(s)) for r, s in enumerate(seqs))), res))
        return v
