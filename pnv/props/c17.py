"""C17 -- file handles and library resources have a clean lifecycle."""
import os
import numpy as np
from ..core import Check, Violation, Script
from ..runner import Case
from ..model import load_error_codes

FMT_CMODE = {1: 0, 2: 0x0200, 5: 0x0020}
I4 = lambda *xs: "hex:" + b"".join(int(x).to_bytes(4, "little", signed=True) for x in xs).hex()


def gen_history(rng, i, nprocs, EC):
    sc = Script()
    exp = {}
    NS = 6
    open_ = {}          # slot -> dict(ncid, path, mode, vals)
    ids_in_use = set()
    created = []
    seq = 0
    feats = set()

    def expect(line, want, what):
        exp[line] = (want, what)

    def next_id():
        k = 0
        while k in ids_in_use:
            k += 1
        return k

    def do_create(slot):
        nonlocal seq
        seq += 1
        path = "s:@OUT@/f%d.nc" % seq
        # (with more than one rank, sometimes with intra-node aggregation: its per-file rank lists are library resources too)
        l = sc.add("*", "create", f=slot, path=path, cmode=FMT_CMODE[rng.choice([1, 2, 5])], info=("nc_num_aggrs_per_node:1" if nprocs > 1 and rng.random() < 0.4 else "-"))
        nid = next_id()
        exp[l] = ((0, nid), "create must return the lowest free id %d" % nid)
        ids_in_use.add(nid)
        open_[slot] = {"ncid": nid, "path": path, "mode": "D", "val": None, "pending": 0}
        sc.add("*", "def_dim", f=slot, name="s:x", len=4)
        sc.add("*", "def_var", f=slot, name="s:v", xtype=4, dimids="0", ndims=1)
        created.append(path)
        feats.add("create")

    def do_close(slot, how="close"):
        st = open_.pop(slot)
        want = 0
        if st["pending"]:
            want = EC["EPENDING"]       # close and abort cancel what is pending and say so
        l = sc.add("*", how, f=slot)
        exp[l] = ((want, None), "%s of a file with %d pending requests" % (how, st["pending"]))
        ids_in_use.discard(st["ncid"])
        if how == "abort" and st["mode"] == "D" and not st.get("enddef_once"):
            if st["path"] in created:
                created.remove(st["path"])
        feats.add(how + ("-pending" if st["pending"] else ""))
        return st

    stale = []
    for step in range(rng.randint(15, 40)):
        r = rng.random()
        free = [s for s in range(NS) if s not in open_]
        if (r < 0.2 and free) or not open_:
            do_create(rng.choice(free))
        elif r < 0.3 and free and created:
            slot = rng.choice(free)
            path = rng.choice(created)
            if any(o["path"] == path for o in open_.values()):
                continue
            ro = rng.random() < 0.4
            l = sc.add("*", "open", f=slot, path=path, omode=0 if ro else 1, info="-")
            nid = next_id()
            exp[l] = ((0, nid), "open must return the lowest free id %d" % nid)
            ids_in_use.add(nid)
            open_[slot] = {"ncid": nid, "path": path, "mode": "C", "val": None, "pending": 0, "ro": ro, "enddef_once": True}
            feats.add("open")
        elif r < 0.45:
            slot = rng.choice(list(open_))
            st = open_[slot]
            how = "abort" if rng.random() < 0.25 else "close"
            stale.append(st["ncid"])
            do_close(slot, how)
        elif r < 0.6:
            # calls on ids that are not open: must all give NC_EBADID, never crash
            bad = rng.choice([-1, -5, 1024, 5000, 2 ** 31 - 1] + [x for x in range(8) if x not in ids_in_use] + [x for x in stale if x not in ids_in_use])
            if bad in ids_in_use:
                continue
            op = rng.choice(["inq", "redef", "enddef", "sync", "put", "get", "def_dim", "iput", "wait", "close", "abort", "sweep", "begin_indep", "inqinfo", "attach"])
            kw = {"ncid": bad}
            if op == "inq":
                l = sc.add("*", "inq", what=rng.choice(["format", "nvars", "header_size", "nreqs", "numrecs"]), **kw)
            elif op == "inqinfo":
                l = sc.add("*", "inq", what="info", **kw)
            elif op == "put":
                l = sc.add("*", "put", v=0, form="vara", mt="int", coll=rng.choice([0, 1]), start="0", count="2", data=I4(1, 2), **kw)
            elif op == "get":
                l = sc.add("*", "get", v=0, form="var", mt="int", coll=rng.choice([0, 1]), nbytes=16, **kw)
            elif op == "iput":
                l = sc.add("*", "iput", v=0, form="vara", mt="int", start="0", count="2", data=I4(1, 2), buf=9, req=9, **kw)
            elif op == "wait":
                l = sc.add("*", "wait", coll=rng.choice([0, 1]), reqs="all", **kw)
            elif op == "def_dim":
                l = sc.add("*", "def_dim", name="s:zz", len=2, **kw)
            elif op == "attach":
                l = sc.add("*", "attach", size=64, **kw)
            elif op == "sweep":
                l = sc.add("*", "inq", what="unlimdim", **kw)
            else:
                l = sc.add("*", op, **kw)
            exp[l] = ((EC["EBADID"], None), "%s on id %d which is not open" % (op, bad))
            feats.add("badid-" + op)
        else:
            slot = rng.choice(list(open_))
            st = open_[slot]
            if st["mode"] == "D":
                l = sc.add("*", "enddef", f=slot)
                exp[l] = ((0, None), "enddef")
                st["mode"] = "C"
                st["enddef_once"] = True
            elif st["mode"] == "I":
                # independent data mode: the library opens a second MPI file handle of its own on first use, which
                # close/abort (possibly while still in this mode) has to release as well
                k = rng.random()
                if k < 0.4 and not st.get("ro"):
                    vals = [rng.randint(-1000, 1000) + slot * 100000 for _ in range(4)]
                    l = sc.add("*", "put", f=slot, v=0, form="var", mt="int", coll=0, data=I4(*vals))
                    exp[l] = ((0, None), "independent put")
                    st["val"] = None          # every rank wrote the same values, but without synchronisation: not read back
                elif k < 0.6:
                    l = sc.add("*", "get", f=slot, v=0, form="var", mt="int", coll=0, nbytes=16)
                    exp[l] = ((0, None), "independent read")
                elif k < 0.85:
                    l = sc.add("*", "end_indep", f=slot)
                    exp[l] = ((0, None), "end_indep_data")
                    st["mode"] = "C"
                feats.add("indep")
            elif rng.random() < 0.2 and not st["pending"]:
                l = sc.add("*", "begin_indep", f=slot)
                exp[l] = ((0, None), "begin_indep_data")
                st["mode"] = "I"
            elif st.get("ro"):
                if st["val"] is not None or True:
                    l = sc.add("*", "get", f=slot, v=0, form="var", mt="int", coll=1, nbytes=16)
                    exp[l] = ((0, None), "read")
            else:
                k = rng.random()
                if k < 0.5:
                    vals = [rng.randint(-1000, 1000) + slot * 100000 for _ in range(4)]
                    l = sc.add("*", "put", f=slot, v=0, form="var", mt="int", coll=1, data=I4(*vals))
                    exp[l] = ((0, None), "put")
                    st["val"] = vals
                    # the other open files must be untouched: read one of them
                    others = [s for s in open_ if s != slot and open_[s]["mode"] == "C" and open_[s]["val"] is not None and not open_[s]["pending"]]
                    if others:
                        o = rng.choice(others)
                        l = sc.add("*", "get", f=o, v=0, form="var", mt="int", coll=1, nbytes=16)
                        exp[l] = ((0, None, I4(*open_[o]["val"])[4:]), "file in slot %d must be unaffected by a write to slot %d" % (o, slot))
                        feats.add("isolation")
                elif k < 0.75:
                    l = sc.add("*", "iput", f=slot, v=0, form="vara", mt="int", start="0", count="1", data=I4(7), buf=slot + 1, req=slot + 1)
                    exp[l] = ((0, None), "iput")
                    st["pending"] += 1
                    st["val"] = None
                elif st["pending"]:
                    l = sc.add("*", "wait", f=slot, coll=1, reqs="all")
                    exp[l] = ((0, None), "wait_all")
                    st["pending"] = 0
                    st["val"] = None
                else:
                    l = sc.add("*", "redef", f=slot)
                    exp[l] = ((0, None), "redef")
                    st["mode"] = "D"
    for slot in list(open_):
        do_close(slot, "close")
    lb = sc.add("*", "balance", list=1)
    return Case("c17_%05d" % i, nprocs, sc.lines, meta={"exp": exp, "balance": lb, "feat": feats, "kind": "history"})


def gen_maxfiles(i, EC):
    """the documented maximum number of files can be open at once; one more gives NC_ENFILE"""
    sc = Script()
    exp = {}
    N = 1024
    for k in range(N):
        l = sc.add("*", "create", f=k, path="s:@OUT@/m%d.nc" % k, cmode=0, info="-")
        exp[l] = ((0, k), "create #%d" % k)
    l = sc.add("*", "create", f=N, path="s:@OUT@/m%d.nc" % N, cmode=0, info="-")
    exp[l] = ((EC["ENFILE"], None), "create beyond NC_MAX_NFILES")
    # free a low and a high id, reopen two: both must succeed with the freed ids
    for k in (10, 700):
        l = sc.add("*", "close", f=k)
        exp[l] = ((0, None), "close")
    l = sc.add("*", "create", f=10, path="s:@OUT@/x10.nc", cmode=0, info="-")
    exp[l] = ((0, 10), "create after closing id 10")
    l = sc.add("*", "create", f=700, path="s:@OUT@/x700.nc", cmode=0, info="-")
    exp[l] = ((0, 700), "create after closing id 700")
    l = sc.add("*", "inq", what="files_opened")
    exp[l] = ((0, None, None, N), "inq_files_opened")
    for k in range(N):
        l = sc.add("*", "close", f=k)
        exp[l] = ((0, None), "close")
    lb = sc.add("*", "balance", list=1)
    return Case("c17_max_%05d" % i, 1, sc.lines, meta={"exp": exp, "balance": lb, "feat": {"maxfiles"}, "kind": "max"}, timeout=300)


def gen_fifo(i, EC, rounds):
    """FIFO-order open/close churn: ids must keep being reusable"""
    sc = Script()
    exp = {}
    l = sc.add("*", "create", f=0, path="s:@OUT@/a.nc", cmode=0, info="-")
    exp[l] = ((0, 0), "create")
    cur, curid = 0, 0
    for k in range(rounds):
        nxt = 1 - cur
        l = sc.add("*", "create", f=nxt, path="s:@OUT@/%s.nc" % ("b" if nxt else "a"), cmode=0, info="-")
        nid = 1 - curid if curid in (0, 1) else 0
        exp[l] = ((0, nid), "create round %d (only one other file open)" % k)
        l = sc.add("*", "close", f=cur)
        exp[l] = ((0, None), "close")
        cur, curid = nxt, nid
    l = sc.add("*", "close", f=cur)
    exp[l] = ((0, None), "close")
    lb = sc.add("*", "balance", list=1)
    return Case("c17_fifo_%05d" % i, 1, sc.lines, meta={"exp": exp, "balance": lb, "feat": {"fifo-churn"}, "kind": "fifo"}, timeout=300)


class C17(Check):
    id = "C17"
    rule = ("histories of create/open/close/abort over up to 6 simultaneously open files with data and metadata calls in between, calls "
            "on ids that are not open (negative, huge, never used, stale ids of closed files -- while other files are open) which must "
            "return NC_EBADID, close with pending nonblocking requests (NC_EPENDING), cross-file isolation reads; plus NC_MAX_NFILES (1024) "
            "files open at once with the 1025th refused (NC_ENFILE) and re-use of freed ids, and 1100 rounds of FIFO-order open/close "
            "churn.  Oracles: return codes and returned ids (lowest free id) against the handle model; after the last close "
            "ncmpi_inq_malloc_size() == 0 and the PMPI shim's live counts of library-created datatypes, communicators, info objects and "
            "file handles are all zero.  distinct = distinct operation kinds x history")

    def generate(self, tier, rng):
        EC = load_error_codes(self.bld)
        self.EC = EC
        n = int(os.environ.get("VERIF_N", 150)) if tier == "quick" else 2500
        yield gen_maxfiles(0, EC)
        yield gen_fifo(0, EC, 1100 if tier == "quick" else 3000)
        for i in range(n):
            yield gen_history(rng, i, rng.choice([1, 1, 2, 3]), EC)

    def features(self, res):
        for f in res.case.meta["feat"]:
            self.features_seen.add((f, res.case.meta["kind"]))
        return res.case.name

    def oracle(self, res):
        v = []
        m = res.case.meta
        for rank in range(res.case.nprocs):
            ret = res.ret(rank)
            for line, (want, what) in m["exp"].items():
                e = ret.get(line)
                if e is None:
                    continue
                self.count("calls_checked")
                werr = want[0]
                if e.geti("err") != werr:
                    v.append(Violation("lifecycle|err|%s|got=%s|want=%s" % (e.op, e.kv.get("err"), werr), "%s: returned %s, expected %s" % (what, e.kv.get("err"), werr), res))
                    continue
                if len(want) > 1 and want[1] is not None and e.geti("ncid") != want[1]:
                    v.append(Violation("lifecycle|id|%s" % e.op, "%s: got id %s" % (what, e.kv.get("ncid")), res))
                if len(want) > 2 and want[2] is not None and e.kv.get("hex") != want[2]:
                    v.append(Violation("lifecycle|isolation", "%s: read %s, expected %s" % (what, e.kv.get("hex"), want[2]), res))
                if len(want) > 3 and want[3] is not None and e.geti("val") != want[3]:
                    v.append(Violation("lifecycle|count", "%s: %s, expected %s" % (what, e.kv.get("val"), want[3]), res))
            b = ret.get(m["balance"])
            if b is not None:
                self.count("end_of_run_balances")
                if b.geti("malloc") != 0:
                    v.append(Violation("leak|heap", "ncmpi_inq_malloc_size() = %s after the last close" % b.kv.get("malloc"), res))
                for k in ("types", "comms", "infos", "files"):
                    if b.geti(k) != 0:
                        v.append(Violation("leak|mpi-" + k, "%s library-created MPI %s still alive after the last close (created %s)" % (b.kv.get(k), k, b.kv.get("tot")), res))
        return v
