"""C12 -- the burst-buffer driver is transparent to the application."""
import os, json, hashlib
import numpy as np
from ..core import Check, Violation
from ..runner import Case
from ..dataprog import NBProg, check_final_file, select
from ..model import check_expectations, Expect, XT2MEM, MEM
from .. import cdfspec as cs


class BBProg(NBProg):
    def bb_init(self):
        self.dirty = {}        # vid -> set(element keys) written since the last flush (any rank)
        self.own = {r: [] for r in range(self.np)}   # boxes written by rank since last global sync
        self.maxreq = 0
        self.nr_synced = 0
        self.nr_own = {r: 0 for r in range(self.np)}

    def pick_form(self, v, st, ct, sd, whole_ok, fam=None):
        # the whole-variable form takes the extent of a record variable from the calling rank's record count, which
        # under this driver legitimately lags behind other ranks' logged puts until the next flush
        if v.isrec and self.nr_synced != self.fm.numrecs:
            whole_ok = False
        return super().pick_form(v, st, ct, sd, whole_ok, fam)

    def flush_all(self, how=None):
        how = how or self.rng.choice(["flush", "sync", "sync3"])
        self.all_ok(how)
        self.dirty = {}
        self.synced()

    def synced(self):
        self.nr_synced = self.fm.numrecs
        self.nr_own = {r: self.fm.numrecs for r in range(self.np)}

    def bb_put(self, vid, nonblocking=False):
        """collective put (or iput by every rank) of disjoint boxes; flushes first when an element would be written twice"""
        v = self.fm.vars[vid]
        fam = "varn" if self.rng.random() < 0.25 else "std"
        boxes = self.decompose(v, self.np, unit_stride=(fam == "varn")) if v.ndims else [([], [], [])] + [None] * (self.np - 1)
        keysets = []
        for bx in boxes:
            if bx is None:
                keysets.append(set())
            else:
                idx = select(*bx) if v.ndims else ()
                keysets.append(self._keys(idx, v.ndims))
        allk = set().union(*keysets)
        if (allk & self.pend_put.get(vid, set())) or (allk & self.pend_get.get(vid, set())):
            # never touch elements of a pending request (its completion order is unspecified)
            self.complete("wait", True, {r: "all" for r in range(self.np)})
            self.dirty = {}
            self.synced()
        if allk & self.dirty.get(vid, set()):
            self.flush_all()
        if v.ndims == 0 and not nonblocking:
            self.one_access("put", "*", vid, [], [], [], True, fam="std", mt=self.typed_mem(v))
            self.dirty.setdefault(vid, set()).update({()})
            return
        for r, bx in enumerate(boxes):
            if bx is None:
                if nonblocking:
                    continue
                if v.ndims == 0:
                    continue
                st, ct, sd = self.zero_request(v)
                self.one_access("put", r, vid, st, ct, sd, True, form="varn" if fam == "varn" else self.rng.choice(["vara", "vars"]), mt=self.typed_mem(v))
            else:
                nel = int(np.prod(bx[1])) if v.ndims else 1
                if nonblocking:
                    self.maxreq = max(self.maxreq, nel * 8)
                    self.post("iput", r, vid, bx[0], bx[1], bx[2], fam=fam)
                else:
                    mt = self.typed_mem(v)
                    # the log stores the caller's buffer as it is: the exact entry size decides how many flush rounds a
                    # "largest request" flush buffer needs
                    self.maxreq = max(self.maxreq, nel * np.dtype(MEM[mt]).itemsize)
                    self.one_access("put", r, vid, bx[0], bx[1], bx[2], True, fam=fam, mt=mt)
                self.own[r].append((vid, bx))
                if v.isrec and bx[1][0] > 0:
                    self.nr_own[r] = max(self.nr_own[r], bx[0][0] + (bx[1][0] - 1) * bx[2][0] + 1)
        self.dirty.setdefault(vid, set()).update(allk)

    def bb_indep(self, vid, readback):
        """enter independent data mode; some ranks put disjoint boxes independently (logged), optionally read their own
        box back at once (which flushes that rank's log only).  Leaves the file in independent mode."""
        v = self.fm.vars[vid]
        boxes = self.decompose(v, self.np) if v.ndims else [([], [], [])] + [None] * (self.np - 1)
        keysets = []
        for bx in boxes:
            keysets.append(set() if bx is None else self._keys(select(*bx) if v.ndims else (), v.ndims))
        allk = set().union(*keysets)
        if any(self.pending[r] for r in range(self.np)):
            self.complete("wait", True, {r: "all" for r in range(self.np)})
            self.dirty = {}
            self.synced()
        if allk & self.dirty.get(vid, set()):
            self.flush_all()
        self.begin_indep()
        for r, bx in enumerate(boxes):
            if bx is None or self.rng.random() < 0.2:
                boxes[r] = None
                continue
            nel = int(np.prod(bx[1])) if v.ndims else 1
            self.maxreq = max(self.maxreq, nel * 8)
            self.one_access("put", r, vid, bx[0], bx[1], bx[2], False, fam="std", mt=self.typed_mem(v))
            self.own[r].append((vid, bx))
            if v.isrec and bx[1][0] > 0:
                self.nr_own[r] = max(self.nr_own[r], bx[0][0] + (bx[1][0] - 1) * bx[2][0] + 1)
            self.dirty.setdefault(vid, set()).update(keysets[r])
        for r, bx in enumerate(boxes):
            if bx is not None and readback and self.rng.random() < 0.8:
                self.one_access("get", r, vid, bx[0], bx[1], bx[2], False, fam="std")
        self.feat.add(("indep-episode", bool(readback), sum(1 for b in boxes if b is not None)))

    def typed_mem(self, v):
        if v.xtype == 2:
            return "text"
        from ..model import NUMERIC_MEM
        return self.rng.choice([XT2MEM[v.xtype]] * 3 + NUMERIC_MEM)

    def read_own(self):
        """every rank reads back one region it wrote itself (no explicit flush or sync in between)"""
        if any(self.pending[r] for r in range(self.np)):
            return
        vids = set(vid for r in range(self.np) for vid, _ in self.own[r])
        if not vids:
            return
        vid = self.rng.choice(sorted(vids))
        v = self.fm.vars[vid]
        for r in range(self.np):
            mine = [bx for w, bx in self.own[r] if w == vid]
            if mine and v.ndims:
                st, ct, sd = self.rng.choice(mine)
                self.one_access("get", r, vid, st, ct, sd, True, fam="std")
            elif v.ndims:
                st, ct, sd = self.zero_request(v)
                self.one_access("get", r, vid, st, ct, sd, True, form="vara")
            else:
                self.one_access("get", r, vid, [], [], [], True, fam="std")
        self.dirty = {}      # a read flushes the log
        self.synced()


def gen_program(rng, i, nprocs):
    p = BBProg(rng, nprocs, "@OUT@/c12.nc", info="@HINTS@")
    p.bb_init()
    p.create()
    p.random_schema(maxlen=6, maxdims=3, nrec=rng.choice([None, 1, 2]))
    p.enddef()
    p.emit("*", "inq", None, f=p.f, what="numrecs")
    for step in range(rng.randint(4, 10)):
        k = rng.random()
        vid = rng.randrange(len(p.fm.vars))
        if k < 0.16 and k >= 0.08:
            # a burst of logged puts (several log entries per rank) before anything flushes
            for _ in range(rng.randint(2, 4)):
                p.bb_put(rng.randrange(len(p.fm.vars)))
        elif k < 0.08:
            p.bb_indep(vid, rng.random() < 0.5)
            p.end_indep()
            if rng.random() < 0.5:
                p.flush_all("sync3")
        elif k < 0.4:
            p.bb_put(vid)
            # (with requests still pending the count may or may not include them: not asserted)
            if not any(p.pending[r] for r in range(nprocs)) and p.fm.unlimdim() >= 0:
                for r in range(nprocs):
                    # a logged put is known to its writer at once, to the others from the next flush on
                    ex = Expect(0, what="record count right after a logged put (own writes %d, all %d)" % (p.nr_own[r], p.fm.numrecs))
                    ex.range_kv = {"val": (max(p.nr_own[r], p.nr_synced), p.fm.numrecs)}
                    p.emit(r, "inq", ex, f=p.f, what="numrecs")
        elif k < 0.55:
            p.bb_put(vid, nonblocking=True)
            if rng.random() < 0.7:
                p.complete("wait", True, {r: rng.choice(["all", "allput"]) for r in range(nprocs)})
                p.dirty = {}
                p.synced()
        elif k < 0.7:
            p.read_own()
        elif k < 0.85:
            if any(p.pending[r] for r in range(nprocs)):
                p.complete("wait", True, {r: "all" for r in range(nprocs)})
            p.flush_all("sync3")
            for r in range(nprocs):
                p.own[r] = []
            p.coll_get(vid)
        elif k < 0.93:
            if any(p.pending[r] for r in range(nprocs)):
                p.complete("wait", True, {r: "all" for r in range(nprocs)})
            p.redef()
            p.emit("*", "put_att", Expect(0), f=p.f, v=-1, name="s:a%d" % step, mt="int", xtype=4, n=1, data="hex:07000000")
            p.fm.gatts.append(cs.Att(b"a%d" % step, 4, np.array([7], dtype="<i4")))
            p.enddef()
            p.dirty = {}
            p.synced()
        else:
            p.flush_all()
    if any(p.pending[r] for r in range(nprocs)):
        p.complete("wait", True, {r: "all" for r in range(nprocs)})
    # close in collective mode, in independent mode with logged puts still pending, after they were flushed by a
    # read-back, or with nothing logged at all: the logs must be gone (or kept) in every case
    how = rng.random()
    if how < 0.25:
        p.bb_indep(rng.randrange(len(p.fm.vars)), rng.random() < 0.6)
        p.feat.add(("close", "indep"))
    elif how < 0.35:
        p.flush_all()
        p.begin_indep()
        p.feat.add(("close", "indep-empty-log"))
    else:
        p.feat.add(("close", "coll"))
    p.close()
    p.emit("*", "barrier")
    lsline = p.emit(0, "listdir", None, path="s:@OUT@/bb")
    p.reopen(omode=0)
    p.read_all()
    p.close()
    p.emit("*", "barrier")
    p.emit(0, "snapshot", path="s:@OUT@/c12.nc", tag="final")
    p.emit("*", "balance", final=1)
    return p, lsline


def make_cases(rng, i, nprocs):
    p, lsline = gen_program(rng, i, nprocs)
    fb = rng.choice([0, 1 << 20, max(64, 2 * p.maxreq), max(16, p.maxreq), max(16, p.maxreq), max(16, p.maxreq)])      # the last two: several flush rounds
    hints = ["nc_burst_buf:enable", "nc_burst_buf_dirname:@OUT@/bb", "nc_burst_buf_flush_buffer_size:%d" % fb]
    shared = rng.random() < 0.5
    keep = rng.random() < 0.25
    shortw = rng.random() < 0.25
    if shared:
        hints.append("nc_burst_buf_shared_logs:enable")
    if keep:
        hints.append("nc_burst_buf_del_on_close:disable")
    out = []
    for drv, h in (("bb", ";".join(hints)), ("mpio", "-")):
        lines = ["0 prefill path=s:@OUT@/bb/.keep size=0"] if False else []
        lines = [l.replace("info=@HINTS@", "info=" + h) for l in p.s.lines]
        # the log directory must exist
        # first line (keeps line numbers aligned between the two runs): in a quarter of the pairs every POSIX write of more
        # than 16 bytes to a log file is cut short (legal for write(2)); the driver has to loop.  No effect without logs.
        lines = [("* shortwrite min=16" if shortw else "* setenv key=VERIF_DUMMY val=s:1")] + lines
        exp = {(r, l + 1): e for (r, l), e in p.expect.items()}
        out.append(Case("c12_%05d_%s" % (i, drv), nprocs, lines, meta={"expect": exp, "fm": p.fm, "feat": p.feat | {("bb", fb == 0, shared, keep, nprocs, shortw)},
                                                                        "drv": drv, "pair": i, "lsline": lsline + 1, "keep": keep, "nel": p.nelems_checked},
                        env={"VERIF_MKDIR": "bb"}))
    return out


class C12(Check):
    id = "C12"
    rule = ("programs of blocking and nonblocking puts (var/var1/vara/vars/varm/varn, all memory types) and reads on fixed and record "
            "variables, no element written twice between flushes, executed twice: with the burst-buffer driver (flush-buffer sizes from "
            "'largest request' to unlimited, shared or per-process logs, del_on_close on/off) and with the default driver.  Oracles: data "
            "model on both runs (own writes readable without explicit flush, everything visible to all ranks after wait/flush/sync/redef/"
            "close, record count right after every logged put; independent-mode episodes of logged puts with immediate read-back; close in "
            "collective mode / independent mode with pending, flushed or empty logs; POSIX short writes injected into log-file writes), logical dump of the two final files identical, log directory empty after "
            "close unless retention was requested.  distinct = (unlimited?, shared, keep, nprocs) x access tuples")
    assumptions = ["no element is written twice between flushes (documented limitation)", "cancel of logged requests is not exercised (NC_EFLUSHED is documented)"]

    def generate(self, tier, rng):
        n = int(os.environ.get("VERIF_N", 110)) if tier == "quick" else 2000
        for i in range(n):
            for c in make_cases(rng, i, rng.choice([1, 2, 3, 4])):
                yield c

    def features(self, res):
        for f in res.case.meta["feat"]:
            self.features_seen.add(f)
        return res.case.name

    def oracle(self, res):
        m = res.case.meta
        v = check_expectations(res, m["expect"])
        self.count("elements_compared", m["nel"])
        snap = os.path.join(res.outdir, "snap.final")
        dump = None
        if os.path.exists(snap):
            b = open(snap, "rb").read()
            v += check_final_file(b, m["fm"], res)
            try:
                d = cs.logical_dump(b)
                sc, _ = cs.decode_header(b)
                for dv, sv, mv in zip(d["vars"], sc.vars, m["fm"].vars):
                    arr = cs.read_var(b, sc, sv)
                    mk = mv.mask[:arr.shape[0]] if mv.isrec else mv.mask
                    if mk.shape == arr.shape:
                        dv["data"] = np.where(mk, arr, 0).astype(cs.BE[sv.xtype]).tobytes().hex()
                dump = hashlib.sha1(json.dumps(d, sort_keys=True).encode()).hexdigest()
            except cs.FormatError:
                pass
        self.dumps = getattr(self, "dumps", {})
        self.dumps.setdefault(m["pair"], {})[m["drv"]] = (dump, res)
        if m["drv"] == "bb":
            e = res.ret(0).get(m["lsline"])
            if e is not None:
                names = [x for x in e.kv.get("names", "").split(",") if x]
                self.count("log_dir_listings")
                if names and not m["keep"]:
                    v.append(Violation("bb|logs-left", "log files left in the burst-buffer directory after close: %s" % names[:4], res))
                if not names and m["keep"]:
                    v.append(Violation("bb|logs-missing", "nc_burst_buf_del_on_close=disable but no log file is left after close", res))
        return v

    def finish(self, _):
        v = []
        for pair, d in getattr(self, "dumps", {}).items():
            if "bb" in d and "mpio" in d and d["bb"][0] and d["mpio"][0]:
                self.count("driver_pairs_compared")
                if d["bb"][0] != d["mpio"][0]:
                    v.append(Violation("bb|final-differs", "final file of the burst-buffer run differs logically from the default-driver run", d["bb"][1]))
        return v
