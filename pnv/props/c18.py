"""C18 -- format size limits are enforced and 64-bit offsets are addressed correctly."""
import os, itertools, struct
import numpy as np
from ..core import Check, Violation, Script
from ..runner import Case
from ..model import load_error_codes
from .. import cdfspec as cs

FMT_CMODE = {1: 0, 2: 0x0200, 5: 0x0020}
LIM = {1: 2 ** 31 - 4, 2: 2 ** 32 - 4, 5: 2 ** 63 - 4}


def dim_rule(version, ln):
    if ln < 0:
        return "EDIMSIZE"
    if version in (1, 2) and ln > 2 ** 31 - 1:
        return "EDIMSIZE"
    return "OK"


def enddef_rule(version, vars_, hdrlen):
    """vars_: list of (isrec, nbytes of one record / whole variable).  Rule table from the format limits."""
    lim = LIM[version]
    fixed = [(i, n) for i, (r, n) in enumerate(vars_) if not r]
    recs = [(i, n) for i, (r, n) in enumerate(vars_) if r]
    bigf = [i for i, n in fixed if n > lim]
    bigr = [i for i, n in recs if n > lim]
    if version == 5 and (bigf or bigr):
        return "EVARSIZE"
    if len(bigf) > 1 or (bigf and bigf[0] != fixed[-1][0]) or (bigf and recs):
        return "EVARSIZE"
    if len(bigr) > 1 or (bigr and bigr[0] != recs[-1][0]):
        return "EVARSIZE"
    if version == 1:
        off = cs.pad4(hdrlen)
        for i, n in fixed:
            if off > 2 ** 31 - 1:
                return "EVARSIZE"
            off += cs.pad4(n)
        for i, n in recs:
            if off > 2 ** 31 - 1:
                return "EVARSIZE"
            off += cs.pad4(n)
    return "OK"


def gen_limit_case(i, version, EC):
    sc = Script()
    exp = {}
    sc.add("*", "create", f=0, path="s:@OUT@/d.nc", cmode=FMT_CMODE[version], info="-")
    k = 0
    for ln in (2 ** 31 - 2, 2 ** 31 - 1, 2 ** 31, 2 ** 32 - 1, 2 ** 32, 2 ** 32 + 1, 2 ** 62, 2 ** 63 - 1, -1, -2 ** 31):
        k += 1
        l = sc.add("*", "def_dim", f=0, name="s:d%d" % k, len=ln)
        exp[l] = (dim_rule(version, ln), "def_dim of length %d in CDF-%d" % (ln, version))
    l = sc.add("*", "abort", f=0)
    return Case("c18_dim_%05d" % i, 1, sc.lines, meta={"exp": exp, "kind": "dim", "feat": {("dim", version)}})


def gen_enddef_cases(i0, version, EC, rng, tier):
    lim = LIM[version]
    sizes = [8, lim - 1, lim, lim + 1, lim + 4] if version != 5 else [8, 2 ** 40]
    if version == 1:
        sizes += [2 ** 30, 2 ** 31 - 600, 2 ** 31 - 513]
    cases = []
    combos = []
    for nv in (1, 2, 3):
        for kinds in itertools.product([False, True], repeat=nv):
            for szs in itertools.product(sizes, repeat=nv):
                combos.append((kinds, szs))
    rng.shuffle(combos)
    n = 60 if tier == "quick" else 600
    sel = combos[:n]
    if version == 1:
        # aimed: no single variable is oversized, but the fixed-size variables together push the record section to
        # or just below the 2 GiB offset limit (the offset rule is about absolute file offsets, not offsets within a record)
        sel = sel + [((False, False, True), (2 ** 30, 2 ** 30, 8)), ((False, False, True), (2 ** 30, 2 ** 30 - 4096, 8)),
                     ((False, False, True, True), (2 ** 30, 2 ** 30, 8, 8)), ((False, False, False, True), (2 ** 30, 2 ** 29, 2 ** 29, 16)),
                     ((False, False, True, True), (2 ** 30, 2 ** 30 - 4096, 2048, 8)), ((False, False, True), (2 ** 30 + 2 ** 29, 2 ** 29 + 4, 8))]
    for ci, (kinds, szs) in enumerate(sel):
        sc = Script()
        # every second multi-variable combination is defined in two define-mode sessions (enddef, redef, the rest): the
        # rules are positional, so a variable accepted as "the last one" must be re-examined when another follows it.
        # (CDF-2/5 only, with header room so that nothing has to move; CDF-1 adds offset rules that depend on the header)
        split = (ci % 2 == 0 and len(kinds) >= 2 and version != 1)
        sp = rng.randint(1, len(kinds) - 1) if split else None
        exp_extra = {}
        sc.add("*", "create", f=0, path="s:@OUT@/e.nc", cmode=FMT_CMODE[version], info="nc_header_align_size:%d;nc_record_align_size:4" % (4096 if split else 4))
        s = cs.Schema(version)
        s.dims.append([b"t", 0])
        sc.add("*", "def_dim", f=0, name="s:t", len=0)
        vars_ = []
        for k, (isrec, nb) in enumerate(zip(kinds, szs)):
            if split and k == sp:
                w1 = enddef_rule(version, vars_, cs.header_len(s))
                l1 = sc.add("*", "enddef", f=0)
                exp_extra[l1] = (w1, "first enddef of CDF-%d with %s" % (version, ["%s %d bytes" % ("record" if r else "fixed", n) for r, n in vars_]))
                if w1 == "OK":
                    l2 = sc.add("*", "redef", f=0)
                    exp_extra[l2] = ("OK", "redef")
            # byte variables over one or two dimensions whose product is nb
            if nb > 2 ** 31 - 1 and version != 5:
                a, b = 4, nb // 4
                rem = nb - a * b
                if rem:          # keep exact size with a 1-d split that fits the dimension limit
                    a, b = 2, nb // 2
                    if a * b != nb:
                        a, b = 1, None
                dl = [a, b] if b and b <= 2 ** 31 - 1 and a * b == nb else None
                if dl is None:
                    continue_flag = True
                    break
            else:
                dl = [nb]
            ids = []
            for j, L in enumerate(dl):
                s.dims.append([b"d%d_%d" % (k, j), L])
                sc.add("*", "def_dim", f=0, name="s:d%d_%d" % (k, j), len=L)
                ids.append(len(s.dims) - 1)
            dimids = ([0] if isrec else []) + ids
            s.vars.append(cs.Var(b"v%d" % k, cs.NC_BYTE, dimids))
            sc.add("*", "def_var", f=0, name="s:v%d" % k, xtype=1, dimids=",".join(map(str, dimids)), ndims=len(dimids))
            vars_.append((isrec, nb))
        else:
            want = enddef_rule(version, vars_, cs.header_len(s))
            l = sc.add("*", "enddef", f=0)
            sc.add("*", "abort", f=0)
            exp_all = dict(exp_extra)
            exp_all[l] = (want, "%senddef of CDF-%d with %s" % ("second (after redef) " if split else "", version, ["%s %d bytes" % ("record" if r else "fixed", n) for r, n in vars_]))
            cases.append(Case("c18_end_%05d" % (i0 + len(cases)), 1, sc.lines, meta={"exp": exp_all,
                                                                                    "kind": "enddef", "feat": {("enddef", version, tuple(r for r, _ in vars_), want, sp)}}))
    return cases


def gen_access_case(i, version, rng, nprocs, far=False):
    """elements on both sides of 2^31 / 2^32 bytes in sparse files"""
    sc = Script()
    path = "s:@OUT@/big.nc"
    xt = rng.choice([1, 3, 4, 6])
    xsz = cs.XSZ[xt]
    mt = {1: "schar", 3: "short", 4: "int", 6: "double"}[xt]
    dt = cs.NATIVE[xt]
    total = rng.choice([2 ** 32 + 4096, 3 * 2 ** 31]) if version != 1 else 2 ** 31 + 4096      # bytes of the big variable
    if far:
        total = 3 * 2 ** 31 + 65536
    if version == 2:
        total = min(total, 2 ** 32 - 8) if rng.random() < 0.5 else total       # CDF-2: the last variable may exceed 2^32-4
    rows = 8
    ncol = total // xsz // rows
    aggr = ";nc_num_aggrs_per_node:1" if (nprocs > 1 and (far or rng.random() < 0.5)) else ""      # intra-node aggregation sorts and merges 64-bit offsets too
    sc.add("*", "create", f=0, path=path, cmode=FMT_CMODE[version], info="nc_header_align_size:4;romio_ds_write:disable;romio_cb_write:disable" + aggr)
    sc.add("*", "def_dim", f=0, name="s:y", len=rows)
    sc.add("*", "def_dim", f=0, name="s:x", len=ncol)
    sc.add("*", "def_var", f=0, name="s:small", xtype=4, dimids="0", ndims=1)
    sc.add("*", "def_var", f=0, name="s:big", xtype=xt, dimids="0,1", ndims=2)
    le = sc.add("*", "enddef", f=0)
    lo = sc.add("*", "inq", f=0, what="varoffset", v=1)
    exp = {le: ("OK", "enddef with a %d-byte last variable in CDF-%d" % (rows * ncol * xsz, version))}
    checks = []
    marks = [2 ** 31, 2 ** 32]
    pts = []
    for mk in marks:
        for d in (-2, -1, 0, 1, 2):
            lin = mk // xsz + d
            if 0 <= lin < rows * ncol:
                pts.append(lin)
    pts += [0, rows * ncol - 1, rng.randrange(rows * ncol)]
    pts = sorted(set(pts))
    if far:
        # few requests whose neighbours (in file order) lie between 2 and 4 GiB apart: offset differences that do not fit
        # 32 bits, completed (and merged) by ONE collective wait across ranks
        base = rng.choice([0, 3, 1000])
        pts = sorted(set([base, base + (2 ** 32 - rng.choice([0, 8, 16, 4096])) // xsz, min(rows * ncol - 1, base + (2 ** 32 + 2 ** 31 + 8) // xsz)]))
        pts = [x for x in pts if 0 <= x < rows * ncol]
    val = 1
    written = {}
    nb = 0
    order = list(pts)
    rng.shuffle(order)          # nonblocking requests are posted out of file order
    use_nb = rng.random() < 0.5 or far
    for lin in order:
        y, x = divmod(lin, ncol)
        val = (val * 7 + 3) % 100 + 1
        raw = np.array([val]).astype(dt).tobytes().hex()
        r = rng.randrange(nprocs) if not far else (order.index(lin) % nprocs)
        form = rng.choice(["var1", "vara", "vars", "varn"])
        kw = dict(f=0, v=1, mt=mt, data="hex:" + raw)
        if form == "var1":
            kw.update(form="var1", start="%d,%d" % (y, x))
        elif form == "vara":
            kw.update(form="vara", start="%d,%d" % (y, x), count="1,1")
        elif form == "vars":
            kw.update(form="vars", start="%d,%d" % (y, x), count="1,1", stride="1,1")
        else:
            kw.update(form="varn", num=1, starts="%d,%d" % (y, x), counts="1,1")
        if use_nb:
            nb += 1
            sc.add(r, "iput", buf=nb, req=nb, **kw)
        else:
            for q in range(nprocs):
                if q == r:
                    sc.add(q, "put", coll=1, **kw)
                else:
                    kk = dict(kw)
                    kk["data"] = "hex:"
                    if form == "var1":
                        kk.update(form="vara", start="0,0", count="0,0")
                    elif form == "varn":
                        kk.update(num=1, starts="0,0", counts="0,0")
                    else:
                        kk.update(start="0,0", count="0,0")
                    sc.add(q, "put", coll=1, **kk)
        written[lin] = val
    if use_nb:
        lw = sc.add("*", "wait", f=0, coll=1, reqs="all")
        exp[lw] = ("OK", "wait_all of %d requests posted out of file order across 2^31/2^32" % nb)
    sc.add("*", "sync3", f=0)
    # read back through the API (another form) and raw from the file
    for lin in pts:
        y, x = divmod(lin, ncol)
        lg = sc.add("*", "get", f=0, v=1, form="vara", mt=mt, coll=1, start="%d,%d" % (y, x), count="1,1", nbytes=xsz)
        lp = sc.add(0, "pread", path=path, f=0, voff=1, off=lin * xsz, len=xsz)
        checks.append((lin, lg, lp, np.array([written[lin]]).astype(dt).tobytes().hex(), np.array([written[lin]]).astype(cs.BE[xt]).tobytes().hex()))
    # a strided iget across the marks
    sc.add("*", "close", f=0)
    sc.add("*", "barrier")
    sc.add(0, "unlink", path=path)
    return Case("c18_acc_%05d" % i, nprocs, sc.lines, meta={"exp": exp, "checks": checks, "kind": "access", "feat": {("access", version, xt, use_nb, nprocs)}}, timeout=240)


class C18(Check):
    id = "C18"
    rule = ("(a) def_dim with lengths around 2^31, 2^32, 2^63 and negative in every format; (b) enddef of schemas of 1-3 byte variables "
            "(fixed/record, every order) whose sizes are taken from {small, limit-1, limit, limit+1, limit+4} for the format's limit "
            "(2^31-4, 2^32-4, 2^63-4) and, for CDF-1, sizes that push a variable's offset across 2^31: result compared with a rule table "
            "written from the format limits; (c) for accepted schemas with a >2 GiB / >4 GiB last variable in sparse files: single "
            "elements at linear positions 2^31/xsz +-2 and 2^32/xsz +-2, first, last and random, written through var1/vara/vars/varn, "
            "blocking collective or nonblocking posted OUT of file order and completed by one wait_all, on 1-2 ranks, then read back "
            "through the API and by raw pread at begin+index*size.  distinct = (kind, version, shape/outcome) tuples")
    assumptions = ["sparse files on tmpfs; ROMIO data sieving and collective buffering for writes disabled so that only requested bytes are touched"]

    def generate(self, tier, rng):
        EC = load_error_codes(self.bld)
        self.EC = EC
        i = 0
        for version in (1, 2, 5):
            yield gen_limit_case(i, version, EC)
            i += 1
        for version in (1, 2, 5):
            for c in gen_enddef_cases(i, version, EC, rng, tier):
                yield c
                i += 1
        n = 18 if tier == "quick" else 200
        for k in range(n):
            yield gen_access_case(i, [1, 2, 5, 5][k % 4], rng, rng.choice([1, 2]))
            i += 1
        for k in range(6 if tier == "quick" else 60):
            yield gen_access_case(i, 5, rng, rng.choice([2, 3]), far=True)
            i += 1

    def features(self, res):
        for f in res.case.meta["feat"]:
            self.features_seen.add(f)
        return res.case.name

    def oracle(self, res):
        v = []
        m = res.case.meta
        EC = self.EC
        code = lambda n: 0 if n == "OK" else EC[n]
        for rank in range(res.case.nprocs):
            ret = res.ret(rank)
            for line, (want, what) in m["exp"].items():
                e = ret.get(line)
                if e is None:
                    continue
                self.count("rule_decisions_checked")
                if e.geti("err") != code(want):
                    v.append(Violation("limits|%s|got=%s|want=%s" % (m["kind"], e.kv.get("err"), want), "%s: returned %s, rule table says %s" % (what, e.kv.get("err"), want), res))
            for (lin, lg, lp, memhex, behex) in m.get("checks", []):
                e = ret.get(lg)
                if e is not None:
                    self.count("large_offset_elements")
                    if e.geti("err") != 0 or e.kv.get("hex") != memhex:
                        v.append(Violation("bigoffset|api-read", "element at linear index %d (byte %d of the variable): read back %s (err %s), wrote %s" % (lin, lin * (len(memhex) // 2), e.kv.get("hex"), e.kv.get("err"), memhex), res))
                p = ret.get(lp)
                if p is not None and rank == 0:
                    if p.kv.get("hex") != behex:
                        v.append(Violation("bigoffset|raw", "element at linear index %d: file holds %s at begin+index*size, expected %s" % (lin, p.kv.get("hex"), behex), res))
        return v
