"""C13 -- caller buffers are respected; attached-buffer accounting is exact."""
import os
import numpy as np
from ..core import Check, Violation
from ..runner import Case
from ..dataprog import NBProg, check_final_file, select
from ..model import check_expectations, Expect, XT2MEM, TD, load_error_codes
from .. import cdfspec as cs
from .c02 import post_round, pick_spec


def probe_insuff(p, rng, rank, EC):
    """a bput that does not fit: must be refused with NC_EINSUFFBUF exactly when size - usage < need"""
    if p.abuf[rank] is None:
        return
    cands = [k for k, v in enumerate(p.fm.vars) if v.ndims > 0 and v.xtype != 2]
    if not cands:
        return
    vid = rng.choice(cands)
    v = p.fm.vars[vid]
    shape = list(p.shape_now(v))
    if min(shape) == 0:
        return
    st = [0] * len(shape)
    ct = list(shape)
    need = int(np.prod(ct)) * cs.XSZ[v.xtype]
    free_ideal = p.abuf[rank] - p.abuf_used[rank]
    free_tail = p.abuf[rank] - p.abuf_tail(rank)
    idx = select(st, ct, [1] * len(ct))
    keys = p._keys(idx, v.ndims)
    if not p.region_free(vid, keys, True):
        return
    mt = XT2MEM[v.xtype]
    nelem = int(np.prod(ct))
    vals, buf, bufcount, nbytes = p.mem_for_write(v, nelem, ct, "vara", mt, None, None)
    p.bslot = (p.bslot + 1) % 4000
    p.rslot = (p.rslot + 1) % 4000
    kw = dict(f=p.f, v=vid, form="vara", mt=mt, start=",".join(map(str, st)), count=",".join(map(str, ct)), data="hex:" + buf.tobytes().hex(), buf=p.bslot, req=p.rslot)
    if need > free_ideal:
        p.emit(rank, "bput", Expect(EC["EINSUFFBUF"], what="bput needs %d bytes, %d free: must be refused" % (need, free_ideal)), **kw)
        p.feat.add(("insuff", "refused"))
    elif need > free_tail:
        ex = Expect(0, what="bput needs %d bytes, %d free by the property's accounting (%d by the allocator's)" % (need, free_ideal, free_tail))
        ex.alt_err = (EC["EINSUFFBUF"], "abuf|insuffbuf|tail-only-reclaim")
        p.emit(rank, "bput", ex, **kw)
        # whichever way it went, drain everything and forget the region
        p.feat.add(("insuff", "known-deviation"))
        p.emit(rank, "wait", None, f=p.f, coll=0, reqs="all") if p.indep else None
        return "diverged"
    return None


def swap_put(p, rng):
    """one collective blocking put without type conversion (the byte-swap-only path, in place above the threshold or by
    hint), each rank through a different buffer description of the same bytes: typed API, flexible with
    MPI_DATATYPE_NULL / the primitive type / a contiguous derived type of any divisor length / a one-block vector"""
    cands = [k for k, v in enumerate(p.fm.vars) if v.ndims > 0 and cs.XSZ[v.xtype] > 1]
    if not cands:
        return
    vid = rng.choice(cands)
    v = p.fm.vars[vid]
    prim = XT2MEM[v.xtype]
    base = TD.prim_(prim)
    for r, bx in enumerate(p.decompose(v, p.np)):
        if bx is None:
            st, ct, sd = p.zero_request(v)
            p.one_access("put", r, vid, st, ct, sd, True, form=rng.choice(["vara", "vars", "varm"]))
            continue
        nelem = int(np.prod(bx[1]))
        k = rng.random()
        if k < 0.2 or nelem == 0:
            mt, td = prim, None
        elif k < 0.3:
            mt, td = "flex", None
        elif k < 0.4:
            mt, td = "flex", base
        elif k < 0.5:
            mt, td = "flex", base.vector(1, nelem, nelem)
        else:
            mt, td = "flex", base.contig(rng.choice([x for x in range(1, nelem + 1) if nelem % x == 0]))
        p.one_access("put", r, vid, bx[0], bx[1], bx[2], True, mt=mt, td=td, fam="std")


def gen_case(rng, i, nprocs, EC):
    hints = ["nc_in_place_swap:%s" % rng.choice(["enable", "disable", "auto"])] if rng.random() < 0.7 else []
    if rng.random() < 0.3:
        hints.append("nc_ibuf_size:%d" % rng.choice([16, 512, 8192]))
    if nprocs > 1 and i % 3 != 2:
        # intra-node write aggregation: the blocking and the wait_all write paths differ, the buffers must be respected on both
        # (chosen from the case number, not from the random stream)
        hints.append("nc_num_aggrs_per_node:%d" % (1 + (i // 3) % (nprocs - 1)))
    p = NBProg(rng, nprocs, "@OUT@/c13.nc", info=";".join(hints) or None)
    p.check_abuf = True
    p.create()
    big = (i % 3 == 0)
    p.random_schema(maxlen=(36 if big else 6), maxdims=(2 if big else 3), nrec=rng.choice([None, 1]),
                    types=[3, 4, 5, 6] if p.version < 5 else [3, 4, 5, 6, 8, 9, 10, 11])
    p.enddef()
    for r in range(nprocs):
        if rng.random() < 0.85:
            p.attach(r, rng.choice([32, 200, 1024, 5000, 1 << 15]))
    for _ in range(rng.randint(1, 2)):
        p.coll_put(rng.randrange(len(p.fm.vars)))
    for _ in range(rng.randint(0, 3)):
        swap_put(p, rng)
    p.sync3()
    for phase in range(rng.randint(2, 5)):
        post_round(p, rng, maxreq=4, kinds=("bput", "bput", "iput", "iget"))
        for r in range(nprocs):
            if p.abuf[r] is not None:
                ex = Expect(0, kv={"val": p.abuf_used[r], "val2": p.abuf[r]}, what="buffer usage after posting")
                ex.alt_kv = {"val": (p.abuf_tail(r), "abuf|usage|tail-only-reclaim")}
                p.emit(r, "inq", ex, f=p.f, what="buffer")
        mode = rng.random()
        if mode < 0.45:
            p.complete("wait", True, {r: pick_spec(p, rng, r) for r in range(nprocs)})
        elif mode < 0.7:
            p.begin_indep()
            choice = {}
            for r in range(nprocs):
                if rng.random() < 0.7:
                    pend = [q for q in p.pending[r] if q["kind"] == "iget" or q["maxrec"] <= p.fm.numrecs]
                    choice[r] = rng.sample(pend, rng.randint(0, len(pend)))
            p.complete("wait", False, choice)
            p.end_indep()
        else:
            choice = {}
            for r in range(nprocs):
                if rng.random() < 0.8:
                    pend = p.pending[r]
                    choice[r] = rng.sample(pend, rng.randint(0, len(pend))) if rng.random() < 0.7 else rng.choice(["all", "allput"])
            p.complete("cancel", False, choice)
        p.sync3()
        # detach / re-attach when nothing buffered is pending
        for r in range(nprocs):
            if p.abuf[r] is not None and not any(q["kind"] == "bput" for q in p.pending[r]) and rng.random() < 0.2:
                p.detach(r)
                if rng.random() < 0.7:
                    p.attach(r, rng.choice([64, 777, 4096]))
    diverged = False
    for r in range(nprocs):
        if rng.random() < 0.6:
            if probe_insuff(p, rng, r, EC) == "diverged":
                diverged = True
    if diverged:
        # the library may or may not have accepted the probe: drain and stop modelling data
        p.emit("*", "wait", None, f=p.f, coll=1, reqs="all")
        for r in range(nprocs):
            p.pending[r] = []
        p.emit("*", "close", None, f=p.f)
        return Case("c13_%05d" % i, nprocs, p.s.lines, meta={"expect": p.expect, "fm": None, "feat": p.feat, "nposted": p.nb_posted})
    p.complete("wait", True, {r: "all" for r in range(nprocs)})
    for r in range(nprocs):
        if p.abuf[r] is not None:
            p.detach(r)
    p.sync3()
    p.read_all()
    p.close()
    p.emit("*", "barrier")
    p.emit(0, "snapshot", path="s:@OUT@/c13.nc", tag="final")
    p.emit("*", "balance", final=1)
    return Case("c13_%05d" % i, nprocs, p.s.lines, meta={"expect": p.expect, "fm": p.fm, "feat": p.feat, "nposted": p.nb_posted})


class C13(Check):
    id = "C13"
    rule = ("histories of attach / bput / iput / iget / wait / wait_all / cancel / detach with request sizes on both sides of the 4096-byte "
            "in-place-swap threshold, swap hint enable/disable/auto, all swapping and converting type pairs and derived buffer datatypes "
            "with gaps.  Monitors: every write buffer is compared byte-for-byte with its pristine copy after the blocking call / wait / "
            "cancel (incl. 64-byte guard zones), bput buffers are scribbled over right after posting and the file must hold the original, "
            "get buffers are pre-filled with a sentinel and must change exactly inside the type map, inq_buffer_usage/size after every "
            "post and completion against the pending-bytes ledger, NC_EINSUFFBUF probes. distinct = access and completion feature tuples")
    assumptions = ["usage is counted in bytes of the external representation (nelems * external type size)"]

    def generate(self, tier, rng):
        EC = load_error_codes(self.bld)
        n = int(os.environ.get("VERIF_N", 240)) if tier == "quick" else 4000
        for i in range(n):
            yield gen_case(rng, i, rng.choice([1, 1, 2, 3] if tier == "quick" else [1, 2, 3, 4, 6]), EC)

    def features(self, res):
        for f in res.case.meta["feat"]:
            self.features_seen.add(f)
        return res.case.name

    def oracle(self, res):
        v = check_expectations(res, res.case.meta["expect"])
        self.count("requests_posted", res.case.meta["nposted"])
        nbuf = sum(1 for evs in res.logs for e in evs if e.kind == "R" and ("bufsame" in e.kv or "guard" in e.kv))
        self.count("buffers_checked", nbuf)
        snap = os.path.join(res.outdir, "snap.final")
        if res.case.meta["fm"] is not None and os.path.exists(snap):
            v += check_final_file(open(snap, "rb").read(), res.case.meta["fm"], res)
        return v
