"""C09 -- numeric type conversion and range checking are exact."""
import os, math, struct
import numpy as np
from ..core import Check, Violation, Script, hx
from ..runner import Case
from ..model import Expect, MEM, XT2MEM, NUMERIC_MEM, load_error_codes
from .. import cdfspec as cs

FMT_CMODE = {1: 0, 2: 0x0200, 5: 0x0020}
MEMFILL = {"schar": -127, "uchar": 255, "short": -32767, "ushort": 65535, "int": -2147483647, "uint": 4294967295,
           "long": -2147483647,     # "long" has no external counterpart of its own; the library's default fill for it is NC_FILL_INT
 "longlong": -9223372036854775806, "ulonglong": 18446744073709551614,
           "float": 9.9692099683868690e+36, "double": 9.9692099683868690e+36}
INT_TYPES = ["i1", "u1", "<i2", "<u2", "<i4", "<u4", "<i8", "<u8"]
FLT_MAX = float(np.finfo(np.float32).max)


def bounds():
    b = set()
    for t in INT_TYPES:
        ii = np.iinfo(np.dtype(t))
        for x in (int(ii.min), int(ii.max)):
            b.update([x - 2, x - 1, x, x + 1, x + 2])
    for k in (7, 8, 15, 16, 23, 24, 25, 31, 32, 33, 52, 53, 54, 62, 63, 64):
        b.update([2 ** k - 1, 2 ** k, 2 ** k + 1, -(2 ** k) - 1, -(2 ** k), -(2 ** k) + 1])
    b.update([0, 1, -1, 2, -2, 100, -100])
    return b


def test_values(dt, rng, small):
    """sorted, unique test vector for a source type"""
    dt = np.dtype(dt)
    if dt.kind in "iu":
        ii = np.iinfo(dt)
        if dt.itemsize <= 2:
            vals = list(range(int(ii.min), int(ii.max) + 1))
            if small and dt.itemsize == 2:
                vals = sorted(set(rng.sample(vals, 2000)) | {x for x in bounds() if ii.min <= x <= ii.max})
        else:
            vals = sorted(x for x in bounds() if ii.min <= x <= ii.max)
            vals = sorted(set(vals) | {rng.randint(int(ii.min), int(ii.max)) for _ in range(60)})
        return np.array(vals, dtype=object).astype(dt)
    out = set()
    fin = np.finfo(dt)
    for x in bounds():
        f = dt.type(x)
        if not np.isfinite(f):
            continue
        out.add(float(f))
        out.add(float(np.nextafter(f, dt.type(np.inf))))
        out.add(float(np.nextafter(f, dt.type(-np.inf))))
        if abs(x) < 2 ** 20:
            out.update([x + 0.5, x - 0.5, x + 0.25, x - 0.75])
    out.update([0.0, 0.5, -0.5, 1.5, -1.5, 1e-30, -1e-30, float(fin.tiny), float(fin.max), -float(fin.max), float("inf"), float("-inf")])
    if dt.itemsize == 8:
        out.update([FLT_MAX, -FLT_MAX, 3.0e38, -3.0e38, 3.5e38, -3.5e38, 1e39, -1e39, 1e300, float(np.nextafter(np.float64(FLT_MAX), -np.inf))])
    out.update(rng.uniform(-1e6, 1e6) for _ in range(30))
    vals = sorted(float(dt.type(v)) for v in out)
    return np.unique(np.array(vals, dtype=dt))


def convert(src, sdt, ddt, exempt=False):
    """reference conversion: returns (values as ddt array, bad mask, ambiguous mask)"""
    sdt, ddt = np.dtype(sdt), np.dtype(ddt)
    n = len(src)
    out = np.zeros(n, dtype=ddt)
    bad = np.zeros(n, dtype=bool)
    amb = np.zeros(n, dtype=bool)
    if exempt:       # classic-format NC_BYTE <-> unsigned char: bit pattern is kept, no range check
        return src.astype(sdt).view(ddt.str if ddt.itemsize == 1 else ddt).astype(ddt), bad, amb
    if ddt.kind in "iu":
        lo, hi = int(np.iinfo(ddt).min), int(np.iinfo(ddt).max)
        for k in range(n):
            x = src[k]
            if sdt.kind == "f":
                xf = float(x)
                if math.isnan(xf):
                    amb[k] = True
                    continue
                if math.isinf(xf):
                    bad[k] = True
                    continue
                t = int(xf)          # truncation toward zero, exact
                if ddt.itemsize == 8 and t == hi + 1:
                    # 2^63 (2^64) equals (double)INT64_MAX ((double)UINT64_MAX): the library documents that it maps this
                    # one value to the maximum instead of reporting a range error -- not asserted
                    amb[k] = True
                    continue
                if lo <= t <= hi and not (lo <= xf <= hi):
                    # e.g. -128.5 -> NC_BYTE: truncation gives -128 but the value itself lies outside the range;
                    # whether that counts as representable is arguable: not asserted
                    amb[k] = True
                    continue
            else:
                t = int(x)
            if t < lo or t > hi:
                bad[k] = True
            else:
                out[k] = t
        return out, bad, amb
    if ddt.itemsize == 4:
        if sdt.kind == "f" and sdt.itemsize == 8:
            xs = src.astype(np.float64)
            fin = np.isfinite(xs)
            bad = fin & (np.abs(xs) > FLT_MAX * (1 + 2.0 ** -24))
            amb = (~fin) | (fin & (np.abs(xs) > FLT_MAX) & ~bad)      # +-Inf/NaN and the rounding zone just above FLT_MAX
            with np.errstate(over="ignore"):
                out = xs.astype(np.float32)
            return out, bad, amb
        if sdt.kind == "f":
            return src.astype(np.float32), bad, amb          # same type: plain copy
        return src.astype(np.float32), bad, amb
    if sdt.kind == "f" and sdt.itemsize == 4:
        # float -> double: every finite value is exact; whether +-Inf counts as representable is arguable
        xs = src.astype(np.float64)
        return xs, bad, ~np.isfinite(xs)
    return src.astype(np.float64), bad, amb


def be_bytes(arr, xt):
    return np.asarray(arr).astype(cs.BE[xt]).tobytes()


def gen_write_case(rng, i, version, xt, small):
    """put vectors of every memory type into variables of external type xt; read the raw bytes back"""
    sc = Script()
    path = "s:@OUT@/c09.nc"
    xdt = np.dtype(cs.NATIVE[xt])
    vecs = {}
    maxn = 0
    for mt in NUMERIC_MEM:
        v = test_values(MEM[mt], rng, small)
        vecs[mt] = v
        maxn = max(maxn, len(v))
    cust = {1: 77, 3: 1234, 4: -123456, 5: 1.5, 6: -2.25, 7: 200, 8: 54321, 9: 3000000000, 10: -5000000000, 11: 12345678901234567890}[xt]
    sc.add("*", "create", f=0, path=path, cmode=FMT_CMODE[version], info="-")
    sc.add("*", "def_dim", f=0, name="s:n", len=maxn)
    sc.add("*", "def_var", f=0, name="s:dflt", xtype=xt, dimids="0", ndims=1)
    sc.add("*", "def_var", f=0, name="s:cust", xtype=xt, dimids="0", ndims=1)
    sc.add("*", "def_var_fill", f=0, v=1, nofill=0, fill="hex:" + np.array([cust]).astype(xdt).tobytes().hex())
    sc.add("*", "def_var", f=0, name="s:txt", xtype=2, dimids="0", ndims=1)
    # a variable that is NOT in fill mode but carries a user _FillValue attribute: "the variable's fill value" is still that attribute
    cust2 = {1: -5, 3: -999, 4: 987654, 5: -7.75, 6: 1e10, 7: 9, 8: 17, 9: 123456789, 10: 77777777777, 11: 99}[xt]
    sc.add("*", "def_var", f=0, name="s:nfcust", xtype=xt, dimids="0", ndims=1)
    sc.add("*", "put_att", f=0, v=3, name="s:_FillValue", mt=XT2MEM[xt], xtype=xt, n=1, data="hex:" + np.array([cust2]).astype(xdt).tobytes().hex())
    sc.add("*", "enddef", f=0)
    lo0 = sc.add("*", "inq", f=0, what="varoffset", v=0)
    lo1 = sc.add("*", "inq", f=0, what="varoffset", v=1)
    checks = []
    xsz = cs.XSZ[xt]
    for mt in NUMERIC_MEM:
        v = vecs[mt]
        exempt = (version < 5 and xt == cs.NC_BYTE and mt == "uchar")
        conv, bad, amb = convert(v, MEM[mt], xdt, exempt)
        good = np.where(~bad & ~amb)[0]
        # the in-range values form contiguous runs in the sorted vector: take the longest
        runs, a = [], None
        for k in range(len(v) + 1):
            ok = k < len(v) and not bad[k] and not amb[k]
            if ok and a is None:
                a = k
            if not ok and a is not None:
                runs.append((a, k))
                a = None
        for vid, fill in ((0, cs.FILL[xt]), (1, cust), (3, cust2)):
            fillv = np.array([fill]).astype(xdt)[0]
            # call 1: whole vector (range error iff some element is unrepresentable)
            lp = sc.add("*", "put", f=0, v=vid, form="vara", mt=mt, coll=1, start="0", count=str(len(v)), data="hex:" + v.astype(MEM[mt]).tobytes().hex())
            lr = sc.add("*", "pread", path=path, f=0, voff=vid, off=0, len=len(v) * xsz)
            want = np.where(bad, fillv, conv).astype(xdt)
            checks.append({"put": lp, "read": lr, "err": "ERANGE" if bad.any() else ("ANY" if amb.any() else "OK"), "want": be_bytes(want, xt), "mask": np.repeat(~amb, xsz), "mt": mt, "vid": vid,
                           "what": "whole vector (%d of %d unrepresentable)" % (int(bad.sum()), len(v)), "nel": len(v)})
            # call 2: an in-range run only -> NC_NOERR
            if runs and vid == 0:
                a, b = max(runs, key=lambda r: r[1] - r[0])
                lp = sc.add("*", "put", f=0, v=vid, form="vara", mt=mt, coll=1, start=str(a), count=str(b - a), data="hex:" + v[a:b].astype(MEM[mt]).tobytes().hex())
                lr = sc.add("*", "pread", path=path, f=0, voff=vid, off=a * xsz, len=(b - a) * xsz)
                checks.append({"put": lp, "read": lr, "err": "OK", "want": be_bytes(conv[a:b], xt), "mask": None, "mt": mt, "vid": vid, "what": "in-range run [%d,%d)" % (a, b), "nel": b - a})
    # the same rules for attributes: a new attribute in define mode, then the same attribute overwritten in data mode
    # (same length, which is permitted there); the stored values are read back in the attribute's own type
    native = XT2MEM[xt]

    attlen = {}

    def att_round(tag, pick):
        for mt in NUMERIC_MEM:
            v = vecs[mt]
            exempt = (version < 5 and xt == cs.NC_BYTE and mt == "uchar")
            conv, bad, amb = convert(v, MEM[mt], xdt, exempt)
            good = [k for k in range(len(v)) if not bad[k] and not amb[k]]
            offenders = [k for k in range(len(v)) if bad[k]]
            idx = pick(good, offenders)
            if not idx:
                continue
            if tag != "define-mode":
                # in data mode an attribute may be overwritten but not grow
                if mt not in attlen:
                    continue
                idx = (idx + good[:6])[:attlen[mt]]
                if len(idx) != attlen[mt]:
                    continue
            attlen[mt] = len(idx)
            sub = v[idx]
            lp = sc.add("*", "put_att", f=0, v=-1, name="s:a_" + mt, mt=mt, xtype=xt, n=len(idx), data="hex:" + sub.astype(MEM[mt]).tobytes().hex())
            lr = sc.add("*", "get_att", f=0, v=-1, name="s:a_" + mt, mt=native, nbytes=len(idx) * xsz)
            anybad = bool(bad[idx].any())
            want = conv[idx].astype(xdt)
            checks.append({"put": lp, "read": lr, "err": "ERANGE" if anybad else "OK", "want": want.tobytes(), "mask": np.repeat(~bad[idx], xsz), "mt": mt, "vid": -1,
                           "what": "attribute-%s (%d of %d unrepresentable)" % (tag, int(bad[idx].sum()), len(idx)), "nel": len(idx)})

    sc.add("*", "redef", f=0)
    att_round("define-mode", lambda good, off: (good[:2] + off[:1] + good[-2:] + off[-1:])[:6] if len(good) >= 4 else [])
    # an all-representable attribute as well, so that the overwrite below is the only source of its range error
    sc.add("*", "enddef", f=0)
    att_round("data-mode-overwrite", lambda good, off: (off[-1:] + good[1:3] + good[-3:-1] + off[:1])[:6] if len(good) >= 4 else [])
    att_round("data-mode-overwrite-clean", lambda good, off: (good[2:5] + good[-3:])[:6] if len(good) >= 6 else [])
    # text <-> number never converts
    lt1 = sc.add("*", "put", f=0, v=0, form="vara", mt="text", coll=1, start="0", count="2", data="hex:4142")
    lt2 = sc.add("*", "put", f=0, v=2, form="vara", mt="int", coll=1, start="0", count="1", data="hex:01000000")
    lt3 = sc.add("*", "get", f=0, v=2, form="vara", mt="double", coll=1, start="0", count="1", nbytes=8)
    lt4 = sc.add("*", "put", f=0, v=2, form="vara", mt="text", coll=1, start="0", count="3", data="hex:80ff00")
    lt5 = sc.add("*", "pread", path=path, f=0, voff=2, off=0, len=3)
    lo2 = sc.add("*", "inq", f=0, what="varoffset", v=2)
    sc.add("*", "close", f=0)
    return Case("c09_w_%05d" % i, 1, sc.lines, meta={"dir": "write", "checks": checks, "offs": [lo0, lo1, lo2], "xt": xt, "version": version,
                                                   "echar": [(lt1, "ECHAR"), (lt2, "ECHAR"), (lt3, "ECHAR"), (lt4, "OK")], "textread": (lt5, "80ff00")})


def gen_read_case(rng, i, version, xt, small):
    """file from the specification encoder holding the test vector of external type xt; get through every memory type"""
    xdt = np.dtype(cs.NATIVE[xt])
    v = test_values(xdt, rng, small)
    s = cs.Schema(version, 0, [[b"n", len(v)]], [], [cs.Var(b"x", xt, [0]), cs.Var(b"t", 2, [0])])
    # attributes with a small slice of the vector
    sub = v[:: max(1, len(v) // 40)]
    s.gatts = [cs.Att(b"a", xt, sub)]
    cs.assign_begins(s)
    b = cs.build_file(s, {0: v, 1: np.zeros(len(v), "u1")})
    sc = Script()
    sc.add("*", "open", f=0, path="s:@OUT@/in.nc", omode=0, info="-")
    checks = []
    tslot = [0]
    for mt in NUMERIC_MEM:
        exempt = (version < 5 and xt == cs.NC_BYTE and mt == "uchar")
        mdt = np.dtype(MEM[mt])
        conv, bad, amb = convert(v, xdt, mdt, exempt)
        fillv = np.array([MEMFILL[mt]]).astype(mdt)[0]
        want = np.where(bad, fillv, conv).astype(mdt)
        l = sc.add("*", "get", f=0, v=0, form="vara", mt=mt, coll=1, start="0", count=str(len(v)), nbytes=len(v) * mdt.itemsize)
        if mt == "long":
            amb = amb | bad      # the default fill of the memory type "long" differs between variable and attribute reads: not asserted
        checks.append({"get": l, "err": "ERANGE" if bad.any() else ("ANY" if amb.any() else "OK"), "want": want.tobytes(), "mask": np.repeat(~amb, mdt.itemsize), "mt": mt, "what": "whole vector", "nel": len(v)})
        # the same conversion through the flexible API and a buffer datatype with gaps (every other slot): the converted
        # values, fills included, must arrive in the selected slots and the gaps stay untouched, range error or not
        W = min(len(v), 240)
        offenders = np.where(bad)[0]
        w0 = int(min(max(0, (offenders[0] if len(offenders) else 0) - W // 2), len(v) - W))
        tslot[0] += 1
        sc.add("*", "type", t=tslot[0], kind="vector", base=mt, n=W, bl=1, stride=2)
        lf = sc.add("*", "get", f=0, v=0, form="vara", mt="flex", coll=1, start=str(w0), count=str(W), bufcount=1, buftype="t%d" % tslot[0], nbytes=(2 * W - 1) * mdt.itemsize)
        fw = np.full(2 * W - 1, 0, dtype=mdt)
        fbytes = bytearray(b"\x5a" * ((2 * W - 1) * mdt.itemsize))
        wsel = want[w0:w0 + W].astype(mdt).tobytes()
        fmask = np.ones((2 * W - 1) * mdt.itemsize, dtype=bool)
        for k in range(W):
            fbytes[2 * k * mdt.itemsize:(2 * k + 1) * mdt.itemsize] = wsel[k * mdt.itemsize:(k + 1) * mdt.itemsize]
            if amb[w0 + k]:
                fmask[2 * k * mdt.itemsize:(2 * k + 1) * mdt.itemsize] = False
        bw, aw = bad[w0:w0 + W], amb[w0:w0 + W]
        checks.append({"get": lf, "err": "ERANGE" if bw.any() else ("ANY" if aw.any() else "OK"), "want": bytes(fbytes), "mask": fmask, "mt": mt,
                       "what": "flexible-strided window [%d,%d)" % (w0, w0 + W), "nel": 2 * W - 1})
        runs, a = [], None
        for k in range(len(v) + 1):
            ok = k < len(v) and not bad[k] and not amb[k]
            if ok and a is None:
                a = k
            if not ok and a is not None:
                runs.append((a, k)); a = None
        if runs:
            a, e = max(runs, key=lambda r: r[1] - r[0])
            l = sc.add("*", "get", f=0, v=0, form="vara", mt=mt, coll=1, start=str(a), count=str(e - a), nbytes=(e - a) * mdt.itemsize)
            checks.append({"get": l, "err": "OK", "want": conv[a:e].astype(mdt).tobytes(), "mask": None, "mt": mt, "what": "in-range run", "nel": e - a})
        # attribute through the same memory type
        conv, bad, amb = convert(sub, xdt, mdt, exempt)
        want = np.where(bad, fillv, conv).astype(mdt)
        l = sc.add("*", "get_att", f=0, v=-1, name="s:a", mt=mt, nbytes=len(sub) * mdt.itemsize)
        if mt == "long":
            amb = amb | bad
        checks.append({"get": l, "err": "ERANGE" if bad.any() else ("ANY" if amb.any() else "OK"), "want": want.tobytes(), "mask": np.repeat(~amb, mdt.itemsize), "mt": mt, "what": "attribute", "nel": len(sub), "att": True})
    le = sc.add("*", "get", f=0, v=0, form="vara", mt="text", coll=1, start="0", count="1", nbytes=1)
    le2 = sc.add("*", "get_att", f=0, v=-1, name="s:a", mt="text", nbytes=len(sub))
    sc.add("*", "close", f=0)
    c = Case("c09_r_%05d" % i, 1, sc.lines, meta={"dir": "read", "checks": checks, "xt": xt, "version": version, "echar": [(le, "ECHAR"), (le2, "ECHAR")]})
    c.files = {"in.nc": b}
    return c


class C09(Check):
    id = "C09"
    rule = ("all 10 numeric external types x 11 numeric memory types (incl. long), CDF-1/2 vs CDF-5, write direction (put_vara then raw "
            "bytes of the file, variable with default and with custom _FillValue) and read direction (file from the specification "
            "encoder, get_vara and get_att): source vectors contain ALL values of the 8-bit types, all (quick: 2000 sampled + all bounds) "
            "values of the 16-bit types, and for wider types every bound of every integer type +-2, 2^k+-1, float neighbours (nextafter) "
            "of every bound, +-0.25/0.5/0.75 fractions, FLT_MAX, denormals, +-Inf and random values.  Oracle: exact reference conversion "
            "(Python integers / IEEE via numpy): NC_ERANGE iff some element is unrepresentable, every representable element exact "
            "(truncation toward zero, round-to-nearest for double->float), offenders replaced by the variable's fill (write) or the "
            "memory type's default fill (read), the in-range run of the sorted vector alone gives NC_NOERR, NC_ECHAR for text<->number, "
            "classic NC_BYTE/unsigned-char exemption.  distinct = (direction, external type, memory type, version, outcome) tuples")
    assumptions = ["NaN sources and doubles in (FLT_MAX, FLT_MAX + half ulp] are not asserted (representability arguable)"]

    def generate(self, tier, rng):
        self.EC = load_error_codes(self.bld)
        small = False          # the 8- and 16-bit source sub-spaces are enumerated completely in both tiers
        i = 0
        # the deterministic part of the vectors (all 8/16-bit values, every bound and its neighbours) is the same in every
        # round; the thorough tier adds CDF-2 and repeats with fresh random values of the wide types
        for rnd in range(1 if tier == "quick" else 8):
            for version in ((1, 5) if tier == "quick" else (1, 2, 5)):
                for xt in ([1, 3, 4, 5, 6] if version != 5 else list(range(1, 12))):
                    if xt == 2:
                        continue
                    yield gen_write_case(rng, i, version, xt, small); i += 1
                    yield gen_read_case(rng, i, version, xt, small); i += 1

    def features(self, res):
        return res.case.name

    def oracle(self, res):
        v = []
        m = res.case.meta
        EC = self.EC
        ret = res.ret(0)
        code = lambda n: 0 if n == "OK" else EC[n]
        if m["dir"] == "write":
            offs = [ret[l].geti("val") if l in ret else None for l in m["offs"]]
        for ck in m["checks"]:
            self.count("calls_checked")
            self.count("elements_compared", ck["nel"])
            e = ret.get(ck.get("put", ck.get("get")))
            if e is None:
                continue
            key_t = "%s|x%d|%s|v%d" % (m["dir"], m["xt"], ck["mt"], m["version"])
            self.features_seen.add((m["dir"], m["xt"], ck["mt"], m["version"], ck["err"], ck["what"].split(" ")[0]))
            if ck["err"] == "ANY":
                if e.geti("err") not in (0, EC["ERANGE"]):
                    v.append(Violation("err|" + key_t + "|any", "%s %s: returned %s" % (e.kv.get("api", e.op), ck["what"], e.kv.get("err")), res))
            elif e.geti("err") != code(ck["err"]):
                v.append(Violation("err|" + key_t + "|" + ck["what"].split(" ")[0], "%s %s: returned %s, reference conversion says %s" % (e.kv.get("api", e.op), ck["what"], e.kv.get("err"), ck["err"]), res))
            if m["dir"] == "write":
                r = ret.get(ck["read"])
                got = r.hexb() if r is not None else None
            else:
                got = e.hexb()
            if got is None:
                continue
            want = np.frombuffer(ck["want"], dtype=np.uint8)
            g = np.frombuffer(got, dtype=np.uint8)
            if len(g) != len(want):
                v.append(Violation("len|" + key_t, "unexpected result length %d, want %d" % (len(g), len(want)), res))
                continue
            diff = g != want
            if ck["mask"] is not None:
                diff &= ck["mask"]
            if diff.any():
                k = int(np.argmax(diff))
                esz = len(want) // max(ck["nel"], 1)
                el = k // max(esz, 1)
                v.append(Violation("value|" + key_t + "|" + ck["what"].split(" ")[0], "%s %s: element %d is %s, reference conversion gives %s (%d bytes differ)" % (
                    e.kv.get("api", e.op), ck["what"], el, got[el * esz:(el + 1) * esz].hex(), ck["want"][el * esz:(el + 1) * esz].hex(), int(diff.sum())), res))
        for (l, name) in m.get("echar", []):
            e = ret.get(l)
            if e is not None and e.geti("err") != code(name):
                v.append(Violation("err|echar|%s" % m["dir"], "%s returned %s, expected %s" % (e.kv.get("api", e.op), e.kv.get("err"), name), res))
        return v

    def run(self, tier, seed, replay=None):
        return Check.run(self, tier, seed, replay)
