"""C16 -- fill-value semantics."""
import os
import numpy as np
from ..core import Check, Violation, hx
from ..runner import Case
from ..dataprog import Prog, check_final_file, types_for
from ..model import check_expectations, Expect, XT2MEM, load_error_codes
from .. import cdfspec as cs


def custom_fill(rng, xt):
    if xt == 2:
        return rng.randint(1, 255)
    if xt in (5, 6):
        return float(rng.randint(-1000, 1000)) + 0.5
    lo, hi = {1: (-128, 127), 3: (-32768, 32767), 4: (-2 ** 31, 2 ** 31 - 1), 7: (0, 255), 8: (0, 65535), 9: (0, 2 ** 32 - 1),
              10: (-2 ** 63, 2 ** 63 - 1), 11: (0, 2 ** 64 - 1)}[xt]
    return rng.choice([lo, hi, 0, rng.randint(lo, hi), 1000 if hi >= 1000 else 100])


def define_some(p, rng, tag, EC, first=True):
    """define 1-4 variables with random fill settings; returns ids"""
    ids = []
    fixed = [d for d in range(len(p.fm.dims)) if p.fm.dims[d][1] != 0]
    ud = p.fm.unlimdim()
    if rng.random() < 0.4:
        p.set_fill(rng.random() < 0.7)
    for k in range(rng.randint(1, 4)):
        isrec = ud >= 0 and rng.random() < 0.45
        ds = ([ud] if isrec else []) + [rng.choice(fixed) for _ in range(rng.randint(0 if not isrec else 0, 2))]
        xt = rng.choice(types_for(p.version))
        vid = p.def_var(b"%s%d" % (tag, k), xt, ds)
        ids.append(vid)
        r = rng.random()
        if r < 0.3:
            p.def_var_fill(vid, 0, custom_fill(rng, xt) if rng.random() < 0.6 else None)
        elif r < 0.4:
            p.def_var_fill(vid, 1)
        elif r < 0.5 and not p.fm.vars[vid].nofill:
            # _FillValue through put_att (same type, length 1)
            v = p.fm.vars[vid]
            val = custom_fill(rng, xt)
            arr = np.array([val]).astype(v.dt)
            mt = XT2MEM[xt]
            p.emit("*", "put_att", Expect(0, what="put_att _FillValue"), f=p.f, v=vid, name=hx(b"_FillValue"), mt=mt, xtype=xt, n=1, data="hex:" + arr.tobytes().hex())
            v.fillval = arr[0]
            v.atts = [a for a in v.atts if a.name != b"_FillValue"] + [cs.Att(b"_FillValue", xt, arr if xt != 2 else bytes([int(val)]))]
        if rng.random() < 0.25:
            p.set_fill(rng.random() < 0.6)
    return ids


def partial_writes(p, rng, n):
    for _ in range(n):
        p.coll_put(rng.randrange(len(p.fm.vars)))


def gen_single_recvar_case(rng, i, nprocs, EC):
    """exactly ONE record variable, narrow type, odd record length (records are then packed without padding), fill mode:
    records are written, then single records are filled explicitly -- the neighbouring records must keep their data"""
    p = Prog(rng, nprocs, "@OUT@/c16.nc")
    p.create()
    p.def_dim(b"rec", 0)
    p.def_dim(b"odd", rng.choice([1, 3, 5, 7]))
    if rng.random() < 0.5:
        p.def_var(b"fixed", rng.choice([4, 6]), [1])
    xt = rng.choice([1, 2, 3] if p.version < 5 else [1, 2, 3, 7, 8])
    vid = p.def_var(b"only", xt, [0, 1])
    p.def_var_fill(vid, 0, custom_fill(rng, xt) if rng.random() < 0.5 else None)
    p.enddef()
    nrec = rng.randint(2, 5)
    v = p.fm.vars[vid]
    L = p.fm.dims[1][1]
    # one rank writes all records (the others take part with zero-length requests)
    for r in range(nprocs):
        if r == 0:
            p.one_access("put", 0, vid, [0, 0], [nrec, L], [1, 1], True, form="vara", mt=XT2MEM[xt] if xt != 2 else "text")
        else:
            p.one_access("put", r, vid, [0, 0], [0, 0], [1, 1], True, form="vara", mt=XT2MEM[xt] if xt != 2 else "text")
    p.sync3()
    for _ in range(rng.randint(1, 3)):
        p.fill_var_rec(vid, rng.randint(0, nrec - 1))
        p.sync3()
        p.read_all()
    p.close()
    p.reopen(omode=0)
    p.read_all()
    p.close()
    p.emit("*", "barrier")
    p.emit(0, "snapshot", path="s:@OUT@/c16.nc", tag="final")
    p.emit("*", "balance", final=1)
    return Case("c16_%05d" % i, nprocs, p.s.lines, meta={"expect": p.expect, "fm": p.fm, "feat": p.feat | {("single-recvar", xt, L, nprocs)}, "nel": p.nelems_checked})


def gen_case(rng, i, nprocs, EC):
    if i % 8 == 7:
        return gen_single_recvar_case(rng, i, nprocs, EC)
    p = Prog(rng, nprocs, "@OUT@/c16.nc")
    p.create()
    if rng.random() < 0.5:
        p.set_fill(True)
    if rng.random() < 0.75:
        p.def_dim(b"rec", 0)
    for k in range(rng.randint(1, 3)):
        p.def_dim(b"d%d" % k, rng.randint(1, 7))
    define_some(p, rng, b"a", EC)
    p.enddef({"hmin": 0, "valign": 4, "vmin": 0, "ralign": 4} if rng.random() < 0.3 else None)
    p.read_all()
    p.emit("*", "sweep", None, f=p.f)
    partial_writes(p, rng, rng.randint(0, 4))
    p.sync3()
    for step in range(rng.randint(1, 4)):
        k = rng.random()
        recfill = [vid for vid, v in enumerate(p.fm.vars) if v.isrec and not v.nofill]
        # the library also accepts fill_var_rec when a _FillValue attribute exists although the mode is off; that
        # combination is left out (the property does not say which of the two settings wins)
        recnofill = [vid for vid, v in enumerate(p.fm.vars) if v.isrec and v.nofill and not any(a.name == b"_FillValue" for a in v.atts)]
        if k < 0.35 and recfill:
            vid = rng.choice(recfill)
            rec = rng.choice([0, max(0, p.fm.numrecs - 1), p.fm.numrecs, p.fm.numrecs + 1])
            p.fill_var_rec(vid, rec)
            p.sync3()
            p.read_all()
        elif k < 0.45 and recnofill:
            p.fill_var_rec(rng.choice(recnofill), 0, expect=EC["ENOTFILL"])
        elif k < 0.8:
            recs = [vid for vid, v in enumerate(p.fm.vars) if v.isrec]
            if recs and nprocs > 1 and rng.random() < 0.35:
                # records appended in independent mode by ONE rank, then define mode re-entered straight from independent
                # mode: the variables added below must be filled over ALL records that exist, on every rank's share
                p.begin_indep()
                vid = rng.choice(recs)
                v = p.fm.vars[vid]
                shape = p.shape_now(v)
                r = rng.randrange(1, nprocs)
                n_new = rng.randint(1, 3)
                st = [p.fm.numrecs] + [0] * (v.ndims - 1)
                ct = [n_new] + list(shape[1:])
                if min(ct) > 0:
                    p.one_access("put", r, vid, st, ct, [1] * v.ndims, False, form="vara")
                p.feat.add(("redef-from-indep",))
            p.redef()
            p.indep = False
            define_some(p, rng, b"r%d" % step, EC)
            if rng.random() < 0.3:
                p.emit("*", "put_att", Expect(0), f=p.f, v=-1, name=hx(b"g%d" % step), mt="text", n=700, data="rep:62:700")
                p.fm.gatts.append(cs.Att(b"g%d" % step, 2, b"b" * 700))
            p.enddef()
            p.read_all()
        else:
            partial_writes(p, rng, rng.randint(1, 3))
            p.sync3()
            p.read_all()
    p.sync3()
    p.read_all()
    p.close()
    p.emit("*", "barrier")
    p.emit(0, "snapshot", path="s:@OUT@/c16.nc", tag="final")
    p.emit("*", "balance", final=1)
    fills = tuple(sorted(set((v.isrec, v.nofill, v.fillval is not None) for v in p.fm.vars)))
    return Case("c16_%05d" % i, nprocs, p.s.lines, meta={"expect": p.expect, "fm": p.fm, "feat": p.feat | {("fills", fills, nprocs)}, "nel": p.nelems_checked})


class C16(Check):
    id = "C16"
    rule = ("schemas in which any subset of variables is in fill mode (dataset set_fill before/after definitions, def_var_fill with and "
            "without value, _FillValue by put_att; all types; fixed and record variables; every 8th case a single narrow record variable "
            "with an odd record length), 1-5 ranks, followed by partial writes, "
            "redefinitions adding filled and unfilled fixed/record variables over existing records, fill_var_rec on existing, last and new "
            "records (and on no-fill variables: NC_ENOTFILL); after every step every rank reads every variable: never-written elements of "
            "filled variables/records must equal the fill value, written ones their data; the raw final file is decoded independently. "
            "distinct = distinct (fill-setting multiset, nprocs) and access tuples")
    assumptions = ["record variables are filled only by fill_var_rec and, for variables added in a redefinition, over the records existing "
                   "at that enddef (doc: PnetCDF does not fill records created later)", "never-written elements of no-fill variables are not asserted"]

    def generate(self, tier, rng):
        EC = load_error_codes(self.bld)
        n = int(os.environ.get("VERIF_N", 200)) if tier == "quick" else 3000
        for i in range(n):
            yield gen_case(rng, i, rng.choice([1, 2, 3, 4] if tier == "quick" else [1, 2, 3, 4, 5]), EC)

    def features(self, res):
        for f in res.case.meta["feat"]:
            self.features_seen.add(f)
        return res.case.name

    def oracle(self, res):
        v = check_expectations(res, res.case.meta["expect"])
        self.count("elements_compared", res.case.meta["nel"])
        fm = res.case.meta["fm"]
        # inq_var_fill (first sweep is right after the first enddef; compare the variables that existed then)
        snap = os.path.join(res.outdir, "snap.final")
        if os.path.exists(snap):
            v += check_final_file(open(snap, "rb").read(), fm, res)
        return v
