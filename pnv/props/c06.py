"""C06 -- redefinition preserves existing data; abort is all-or-nothing."""
import os, copy
import numpy as np
from ..core import Check, Violation, hx
from ..runner import Case
from ..dataprog import Prog, check_final_file, types_for
from ..model import check_expectations, Expect, XT2MEM
from .. import cdfspec as cs


def fill_everything(p, rng):
    """write every element of every variable (collectively, decomposed along the first dimension)"""
    for vid, v in enumerate(p.fm.vars):
        shape = list(p.shape_now(v))
        if v.ndims == 0:
            p.coll_put(vid)
            continue
        if v.isrec:
            shape[0] = p.target_recs
        if min(shape) == 0:
            continue
        pieces = p.split_dim(shape[0], p.np)
        for r, (a, b) in enumerate(pieces):
            st = [a] + [0] * (v.ndims - 1)
            ct = [b - a] + shape[1:]
            if b <= a:
                ct = [0] * v.ndims
                st = [0] * v.ndims
            p.one_access("put", r, vid, st, ct, [1] * v.ndims, True, form="vara", mt=XT2MEM[v.xtype])


def redefine(p, rng, k):
    """one redefinition with a random delta; returns feature tuple"""
    p.redef()
    feats = []
    r = rng.random()
    fillnew = rng.random() < 0.45
    if fillnew and rng.random() < 0.6:
        # dataset fill mode: enddef fills the variables added below (fixed ones completely, record ones over the
        # records that exist) -- an extra collective write next to the data that has to survive
        p.set_fill(True)
        feats.append("setfill")
    elif not fillnew and p.fillmode and rng.random() < 0.5:
        p.set_fill(False)
    if rng.random() < 0.7:
        n = rng.choice([3, 20, 200, 3000, 70000 if rng.random() < 0.15 else 900])
        name = b"att%d" % k
        p.emit("*", "put_att", Expect(0, what="put_att in redef"), f=p.f, v=-1, name=hx(name), mt="text", n=n, data="rep:%02x:%d" % (0x41 + k, n))
        p.fm.gatts.append(cs.Att(name, cs.NC_CHAR, bytes([0x41 + k]) * n))
        feats.append("att%d" % (0 if n < 100 else 1 if n < 2000 else 2))
    if rng.random() < 0.5:
        fixed = [d for d in range(len(p.fm.dims)) if p.fm.dims[d][1] != 0]
        if rng.random() < 0.3:
            fixed.append(p.def_dim(b"nd%d" % k, rng.randint(1, 6)))
        ds = [rng.choice(fixed) for _ in range(rng.randint(0, 2))]
        p.def_var(b"nf%d" % k, rng.choice(types_for(p.version)), ds)
        if fillnew and not p.fillmode:
            p.def_var_fill(len(p.fm.vars) - 1, False)
            feats.append("varfill")
        feats.append("newfix")
    if p.fm.unlimdim() >= 0 and rng.random() < 0.5:
        fixed = [d for d in range(len(p.fm.dims)) if p.fm.dims[d][1] != 0]
        ds = [p.fm.unlimdim()] + [rng.choice(fixed) for _ in range(rng.randint(0, 2))]
        p.def_var(b"nr%d" % k, rng.choice(types_for(p.version)), ds)
        if fillnew and not p.fillmode:
            p.def_var_fill(len(p.fm.vars) - 1, False)
            feats.append("varfill")
        feats.append("newrec")
    if rng.random() < 0.4:
        args = dict(hmin=rng.choice([0, 0, 16, 700]), valign=rng.choice([0, 4, 8, 64, 512, 1000]),
                    vmin=rng.choice([0, 0, 32, 5000]), ralign=rng.choice([0, 4, 8, 64, 512, 4096]))
        p.enddef(args)
        feats.append("_enddef")
    else:
        p.enddef()
    return tuple(feats)


def gen_case(rng, i, nprocs):
    hints = []
    if rng.random() < 0.4:
        hints.append("nc_header_align_size:%d" % rng.choice([4, 8, 64, 512, 1024]))
    if rng.random() < 0.3:
        hints.append("nc_var_align_size:%d" % rng.choice([4, 8, 64, 512]))
    if rng.random() < 0.3:
        hints.append("nc_record_align_size:%d" % rng.choice([4, 8, 64, 512]))
    p = Prog(rng, nprocs, "@OUT@/c06.nc", info=";".join(hints) or None)
    kind = rng.random()
    if kind < 0.08:
        # abort of a freshly created file removes it
        p.create()
        p.random_schema(maxlen=4, maxdims=2)
        if rng.random() < 0.5:
            p.emit("*", "abort", Expect(0, what="abort in define mode of a new file"), f=p.f)
        else:
            p.enddef()
            p.redef()
            p.emit("*", "abort", Expect(0, what="abort in re-define mode of a new file"), f=p.f)
        p.emit("*", "barrier")
        # a file that never left define mode for good must be gone; after an enddef it exists
        ex = Expect(None, kv={"exists": 0}, what="file after aborting a create") if p.defmode and False else None
        line = p.emit(0, "filehash", None, path="s:@OUT@/c06.nc")
        return Case("c06_%05d" % i, nprocs, p.s.lines, meta={"expect": p.expect, "fm": None, "feat": {("abort-create",)}, "abort_create_line": line,
                                                               "never_enddef": "enddef" not in " ".join(p.s.lines)})
    p.create()
    p.random_schema(maxlen=rng.choice([3, 5, 9]), maxdims=3, nrec=rng.choice([0, 1, 1, 2, 3]), maxvars=5)
    p.target_recs = rng.choice([0, 1, 2, 3, 5]) if p.fm.unlimdim() >= 0 else 0
    p.enddef({"hmin": 0, "valign": rng.choice([4, 4, 64]), "vmin": rng.choice([0, 0, 40]), "ralign": rng.choice([4, 4, 512])} if rng.random() < 0.4 else None)
    fill_everything(p, rng)
    p.sync3()
    feats = set()
    nre = rng.randint(1, 4)
    for k in range(nre):
        if rng.random() < 0.25:
            # abort of a redefinition: file must be byte-identical to what it was when define mode was re-entered
            p.emit("*", "barrier")
            l0 = p.emit(0, "filehash", None, path="s:@OUT@/c06.nc")
            saved = copy.deepcopy(p.fm)
            p.redef()
            p.emit("*", "put_att", Expect(0), f=p.f, v=-1, name=hx(b"gone"), mt="text", n=2000, data="rep:5a:2000")
            if p.fm.unlimdim() >= 0:
                p.def_var(b"gonevar", 4, [p.fm.unlimdim()])
            p.emit("*", "abort", Expect(0, what="abort of a redefinition"), f=p.f)
            p.fm = saved
            p.new_vars = []
            p.emit("*", "barrier")
            l1 = p.emit(0, "filehash", None, path="s:@OUT@/c06.nc")
            p.reopen(omode=1)
            p.read_all()
            feats.add(("abort-redef",))
            p.meta_abort = getattr(p, "meta_abort", []) + [(l0, l1)]
            continue
        feats.add(redefine(p, rng, k))
        # everything that existed must still be there, through the API on every rank
        p.read_all()
        if rng.random() < 0.5:
            # also write the new variables a bit and re-check
            p.coll_put(len(p.fm.vars) - 1)
            p.sync3()
    p.close()
    p.reopen(omode=0)
    p.read_all()
    p.close()
    p.emit("*", "barrier")
    p.emit(0, "snapshot", path="s:@OUT@/c06.nc", tag="final")
    p.emit("*", "balance", final=1)
    return Case("c06_%05d" % i, nprocs, p.s.lines, meta={"expect": p.expect, "fm": p.fm, "feat": feats | {("nrecs", p.target_recs, len([v for v in p.fm.vars if v.isrec]) > 1)},
                                                           "aborts": getattr(p, "meta_abort", []), "nel": p.nelems_checked})


class C06(Check):
    id = "C06"
    rule = ("base layouts (fixed+record mixes, 0-5 records, one or many record variables, alignment hints) completely filled with unique "
            "values on 1-5 ranks, then 1-4 redefinitions adding small/large/very large attributes, new dimensions, fixed and record "
            "variables and new ncmpi__enddef alignment/minfree arguments; after every enddef every rank reads every pre-existing element "
            "back, and after close the raw file is decoded independently.  Aborted redefinitions: the file hash before redef and after "
            "abort must be equal; aborted creates: the file must not exist.  distinct = distinct delta tuples x record layout")

    def generate(self, tier, rng):
        n = int(os.environ.get("VERIF_N", 200)) if tier == "quick" else 3000
        for i in range(n):
            yield gen_case(rng, i, rng.choice([1, 2, 3, 4] if tier == "quick" else [1, 2, 3, 4, 5, 7]))

    def features(self, res):
        for f in res.case.meta["feat"]:
            self.features_seen.add(f)
        return res.case.name

    def oracle(self, res):
        v = check_expectations(res, res.case.meta["expect"])
        ret0 = res.ret(0)
        if "abort_create_line" in res.case.meta:
            e = ret0.get(res.case.meta["abort_create_line"])
            if e is not None and res.case.meta["never_enddef"] and e.kv.get("exists") != "0":
                v.append(Violation("abort|create|file-left", "file still exists after aborting its creation (size %s)" % e.kv.get("size"), res))
            return v
        self.count("elements_compared", res.case.meta.get("nel", 0))
        for (l0, l1) in res.case.meta.get("aborts", []):
            a, b = ret0.get(l0), ret0.get(l1)
            if a is not None and b is not None:
                self.count("abort_hashes_compared")
                if (a.kv.get("hash"), a.kv.get("size")) != (b.kv.get("hash"), b.kv.get("size")):
                    v.append(Violation("abort|redef|file-changed", "file changed by an aborted redefinition: size %s hash %s before redef, size %s hash %s after abort" % (
                        a.kv.get("size"), a.kv.get("hash"), b.kv.get("size"), b.kv.get("hash")), res))
        snap = os.path.join(res.outdir, "snap.final")
        if res.case.meta["fm"] is not None and os.path.exists(snap):
            b = open(snap, "rb").read()
            self.count("file_bytes_decoded", len(b))
            v += check_final_file(b, res.case.meta["fm"], res)
        return v
