"""C14 -- API mode state machine and error precedence."""
import os, itertools, copy
from ..core import Check, Violation, Script
from ..runner import Case
from ..model import load_error_codes

FMT_CMODE = {1: 0, 2: 0x0200, 5: 0x0020}
MODE_CALLS = ["enddef", "redef", "begin_indep", "end_indep", "reopen_rw", "reopen_ro"]


class St:
    def __init__(self, start):
        self.mode = "D" if start == "create" else "C"
        self.ro = start == "open_ro"
        self.new = start == "create"
        self.ndims = 2
        self.nvars = 3
        self.k = 0

    def key(self):
        return (self.mode, self.ro)


def transition(st, call, EC):
    """returns expected code; updates st"""
    if call == "enddef":
        if st.mode != "D":
            return EC["ENOTINDEFINE"]
        st.mode = "C"
        st.new = False
        return 0
    if call == "redef":
        if st.ro:
            return EC["EPERM"]
        if st.mode == "D":
            return EC["EINDEFINE"]
        st.mode = "D"
        return 0
    if call == "begin_indep":
        if st.mode == "D":
            return EC["EINDEFINE"]
        st.mode = "I"
        return 0
    if call == "end_indep":
        if st.mode == "D":
            return EC["EINDEFINE"]
        st.mode = "C"       # (calling it in collective mode is accepted since 1.2.0, like begin_indep_data in independent mode)
        return 0
    raise ValueError(call)


def probes(st, EC, sc, exp, tag):
    """emit every probe in state st; exp[line] = expected code or set"""
    D, C, I, RO = st.mode == "D", st.mode == "C", st.mode == "I", st.ro
    f = 0

    def add(op, want, **kw):
        line = sc.add("*", op, f=f, **kw)
        exp[line] = (want, "%s in state %s%s" % (op + ":" + str(kw.get("form", kw.get("what", ""))), st.mode, "/RO" if RO else ""))
        return line
    st.k += 1
    u = "%s%d" % (tag, st.k)
    # --- define family
    # on a read-only file (never in define mode) both NC_EPERM and NC_ENOTINDEFINE apply: no documented precedence
    w = {EC["EPERM"], EC["ENOTINDEFINE"]} if RO else (0 if D else EC["ENOTINDEFINE"])
    add("def_dim", w, name="s:pd" + u, len=3)
    if w == 0:
        st.ndims += 1
    add("def_var", w, name="s:pv" + u, xtype=4, dimids="1", ndims=1)
    if w == 0:
        st.nvars += 1
    add("put_att", w, v=-1, name="s:newatt" + u, mt="int", xtype=4, n=1, data="hex:01000000")
    add("del_att", {EC["EPERM"], EC["ENOTINDEFINE"]} if RO else (EC["ENOTATT"] if D else EC["ENOTINDEFINE"]), v=-1, name="s:nosuchatt")
    add("set_fill", {EC["EPERM"], EC["ENOTINDEFINE"]} if RO else (0 if D else EC["ENOTINDEFINE"]), mode=0x100)
    add("def_var_fill", {EC["EPERM"], EC["ENOTINDEFINE"]} if RO else (0 if D else EC["ENOTINDEFINE"]), v=0, nofill=1, fill="-")
    # --- permitted in any writable mode
    add("put_att", EC["EPERM"] if RO else 0, v=-1, name="s:title", mt="text", n=5, data="hex:48454c4c4f")
    add("rename_att", EC["EPERM"] if RO else 0, v=-1, name="s:title", newname="s:titel")
    add("rename_att", EC["EPERM"] if RO else 0, v=-1, name="s:titel", newname="s:title")
    add("rename_var", EC["EPERM"] if RO else 0, v=1, name="s:w2")
    add("rename_var", EC["EPERM"] if RO else 0, v=1, name="s:w1")
    add("rename_dim", EC["EPERM"] if RO else 0, d=1, name="s:x2")
    add("rename_dim", EC["EPERM"] if RO else 0, d=1, name="s:x1")
    # a LONGER name needs define mode; in data mode the call is rejected and must leave no trace (the by-name inquiries of
    # the sweeps and the name-table invariants of the walker look at what it left behind)
    lw = {EC["EPERM"]} if RO else (0 if D else EC["ENOTINDEFINE"])
    add("rename_dim", lw, d=1, name="s:x1_much_longer")
    if lw == 0:
        add("rename_dim", 0, d=1, name="s:x1")
    add("rename_var", lw, v=1, name="s:w1_much_longer")
    if lw == 0:
        add("rename_var", 0, v=1, name="s:w1")
    add("rename_att", lw, v=-1, name="s:title", newname="s:title_much_longer")
    if lw == 0:
        add("rename_att", 0, v=-1, name="s:title_much_longer", newname="s:title")
    add("inq", 0, what="dimid", name="s:x1")
    add("inq", 0, what="varid", name="s:w1")
    add("get_att", 0, v=-1, name="s:title", mt="text", nbytes=5)
    # --- blocking data access
    pw = lambda ok_mode, wrong: EC["EPERM"] if RO else (EC["EINDEFINE"] if D else (0 if ok_mode else wrong))
    gr = lambda ok_mode, wrong: EC["EINDEFINE"] if D else (0 if ok_mode else wrong)
    data = "hex:0100000002000000"
    add("put", pw(C, EC["EINDEP"]), v=0, form="vara", mt="int", coll=1, start="0", count="2", data=data)
    add("put", pw(I, EC["ENOTINDEP"]), v=0, form="vara", mt="int", coll=0, start="0", count="2", data=data)
    add("get", gr(C, EC["EINDEP"]), v=0, form="vara", mt="int", coll=1, start="0", count="2", nbytes=8)
    add("get", gr(I, EC["ENOTINDEP"]), v=0, form="vara", mt="int", coll=0, start="0", count="2", nbytes=8)
    add("put", pw(C, EC["EINDEP"]), v=0, form="varn", mt="int", coll=1, num=1, starts="0", counts="2", data=data)
    add("get", gr(I, EC["ENOTINDEP"]), v=0, form="varn", mt="int", coll=0, num=1, starts="0", counts="2", nbytes=8)
    # error precedence: mode errors come before argument errors
    add("put", EC["EPERM"] if RO else (EC["EINDEFINE"] if D else (EC["ENOTVAR"] if C else EC["EINDEP"])), v=99, form="vara", mt="int", coll=1, start="0", count="2", data=data)
    add("get", EC["EINDEFINE"] if D else (EC["EINVALCOORDS"] if I else EC["ENOTINDEP"]), v=0, form="vara", mt="int", coll=0, start="9", count="1", nbytes=4)
    # --- nonblocking
    add("iput", EC["EPERM"] if RO else 0, v=0, form="vara", mt="int", start="0", count="2", data=data, buf=1, req=1)
    add("iget", 0, v=0, form="vara", mt="int", start="0", count="2", nbytes=8, buf=2, req=2)
    add("inq", 0, what="nreqs")
    add("cancel", 0, coll=0, reqs="all")
    add("bput", EC["EPERM"] if RO else EC["ENULLABUF"], v=0, form="vara", mt="int", start="0", count="2", data=data, buf=3, req=3)
    add("attach", 0, size=64)
    add("attach", EC["EPREVATTACHBUF"], size=64)
    add("bput", EC["EPERM"] if RO else 0, v=0, form="vara", mt="int", start="0", count="2", data=data, buf=3, req=3)
    add("detach", EC["EPERM"] if False else (0 if RO else EC["EPENDINGBPUT"]))
    add("cancel", 0, coll=0, reqs="all")
    add("detach", EC["ENULLABUF"] if RO else 0)
    add("wait", EC["EINDEFINE"] if D else (0 if C else EC["EINDEP"]), coll=1, reqs="all")
    add("wait", EC["EINDEFINE"] if D else (0 if I else EC["ENOTINDEP"]), coll=0, reqs="all")
    # the mode rules do not depend on how many requests are named: an empty list is checked like any other
    add("wait", EC["EINDEFINE"] if D else (0 if C else EC["EINDEP"]), coll=1, reqs="none")
    add("wait", EC["EINDEFINE"] if D else (0 if I else EC["ENOTINDEP"]), coll=0, reqs="none")
    add("wait", EC["EINDEFINE"] if D else (0 if C else EC["EINDEP"]), coll=1, reqs="null,null")
    add("wait", EC["EINDEFINE"] if D else (0 if I else EC["ENOTINDEP"]), coll=0, reqs="null")
    # --- sync family
    add("sync", EC["EINDEFINE"] if D else 0)
    add("sync_numrecs", EC["EINDEFINE"] if D else ({0, EC["EPERM"]} if RO else 0))     # nothing to write on a read-only file: either answer
    add("flush", {0, EC["EINDEFINE"]} if D else 0)                                      # documented as data-mode only, error not specified
    # (whether a variable of a re-opened file counts as being in fill mode is not part of this property)
    add("fill_var_rec", EC["EPERM"] if RO else (EC["EINDEFINE"] if D else ({0, EC["ENOTFILL"]} if C else EC["EINDEP"])), v=2, rec=0)
    # --- inquiries are always permitted
    for what in ("format", "header_size", "recsize", "numrecs", "nvars", "unlimdim", "put_size", "buffer"):
        add("inq", 0 if what != "buffer" else EC["ENULLABUF"], what=what)
    add("inq", 0, what="varoffset", v=0)


def gen_case(i, start, seq, EC, nprocs=1):
    sc = Script()
    exp = {}
    sweeps = []
    path = "s:@OUT@/c14.nc"
    # a finished file to start from
    sc.add("*", "create", f=0, path=path, cmode=0, info="-")
    sc.add("*", "def_dim", f=0, name="s:t", len=0)
    sc.add("*", "def_dim", f=0, name="s:x1", len=4)
    sc.add("*", "def_var", f=0, name="s:v0", xtype=4, dimids="1", ndims=1)
    sc.add("*", "def_var", f=0, name="s:w1", xtype=5, dimids="1", ndims=1)
    sc.add("*", "def_var", f=0, name="s:r2", xtype=4, dimids="0,1", ndims=2)
    sc.add("*", "put_att", f=0, v=-1, name="s:title", mt="text", n=5, data="hex:68656c6c6f")
    st = St(start)
    if start != "create":
        sc.add("*", "enddef", f=0)
        sc.add("*", "close", f=0)
        l = sc.add("*", "open", f=0, path=path, omode=(1 if start == "open_rw" else 0), info="-")
        exp[l] = (0, "open")
    probes(st, EC, sc, exp, "a")
    states = [st.key()]
    for call in seq:
        if call.startswith("reopen"):
            l = sc.add("*", "close", f=0)
            exp[l] = (0, "close in state %s" % st.mode)
            ro = call.endswith("ro")
            l = sc.add("*", "open", f=0, path=path, omode=(0 if ro else 1), info="-")
            exp[l] = (0, "open")
            if st.mode == "D" and st.new:
                # a new file closed in define mode is completed by close (enddef implied)
                pass
            st.mode, st.ro, st.new = "C", ro, False
        else:
            before = copy.copy(st)
            want = transition(st, call, EC)
            l = sc.add("*", {"enddef": "enddef", "redef": "redef", "begin_indep": "begin_indep", "end_indep": "end_indep"}[call], f=0)
            exp[l] = (want, "%s in state %s%s" % (call, before.mode, "/RO" if before.ro else ""))
        probes(st, EC, sc, exp, "b%d" % len(states))
        states.append(st.key())
        # a rejected call must not change anything observable: hash around a block of rejected probes is covered by the
        # next block's predictions (mode) and by the sweep below (metadata)
    sw = sc.add("*", "sweep", f=0)
    l = sc.add("*", "close", f=0)
    exp[l] = (0, "final close")
    return Case("c14_%05d" % i, nprocs, sc.lines, meta={"exp": exp, "start": start, "seq": seq, "states": states, "sweep": sw, "ndims": st.ndims, "nvars": st.nvars})


class C14(Check):
    id = "C14"
    exhaustive = True
    rule = ("bounded exhaustive exploration: from {created, opened writable, opened read-only} every sequence (complete enumeration) of mode-changing calls (enddef, redef, "
            "begin_indep_data, end_indep_data, close+reopen writable, close+reopen read-only) up to depth 3 (quick) / 4 (thorough); in the start "
            "state and after every step a battery of ~55 probe calls from every API family (define, attribute put/overwrite/rename/delete, "
            "blocking put/get collective and independent incl. varn, argument-error precedence, nonblocking post / wait / wait_all / cancel, "
            "buffer attach/detach, sync, sync_numrecs, flush, fill_var_rec, inquiries).  Oracle: every return code equals the reference "
            "automaton's prediction (documented precedence: permission > mode > variable id > arguments); because later predictions are made "
            "from the unchanged model state, a rejected call that changed the mode or the metadata is exposed by the following probes and "
            "the final sweep.  distinct = distinct (state, probe, outcome) triples")
    assumptions = ["one process (the 2-process sample repeats a subset)", "attribute/rename probes keep name lengths constant so that they are legal in data mode"]

    def generate(self, tier, rng):
        EC = load_error_codes(self.bld)
        self.EC = EC
        depth = 3 if tier == "quick" else 4
        i = 0
        for start in ("create", "open_rw", "open_ro"):
            for d in range(0, depth + 1):
                for seq in itertools.product(MODE_CALLS, repeat=d):
                    yield gen_case(i, start, seq, EC, nprocs=(2 if i % 9 == 0 else 1))
                    i += 1

    def features(self, res):
        return res.case.name

    def oracle(self, res):
        v = []
        m = res.case.meta
        for rank in range(res.case.nprocs):
            ret = res.ret(rank)
            for line, (want, what) in m["exp"].items():
                e = ret.get(line)
                if e is None:
                    continue
                self.count("calls_checked")
                got = e.geti("err")
                ok = got in want if isinstance(want, (set, frozenset)) else got == want
                op = what.split(" ")[0]
                self.features_seen.add((what.split(" in state ")[-1], op, got))
                if not ok:
                    v.append(Violation("mode|%s|%s|got=%s|want=%s" % (op, what.split(" in state ")[-1], got, want),
                                       "%s returned %s, reference automaton says %s (start %s, mode calls so far %s)" % (what, got, want, m["start"], list(m["seq"])), res))
            sw = [e for e in res.logs[rank] if e.kind == "S" and e.line == m["sweep"] and e.op == "file"]
            if sw:
                if sw[0].geti("ndims") != m["ndims"] or sw[0].geti("nvars") != m["nvars"]:
                    v.append(Violation("mode|rejected-call-had-effect", "final inquiry shows %s dims / %s vars, the model (only accepted definitions) has %d / %d" % (
                        sw[0].kv.get("ndims"), sw[0].kv.get("nvars"), m["ndims"], m["nvars"]), res))
        return v
