"""C20 -- offline utilities agree with the library and the format."""
import os, sys, time, random, subprocess, shutil, re, copy, struct
import numpy as np
from concurrent.futures import ThreadPoolExecutor
from ..core import Check, Violation, load_known
from .. import runner, cdfspec as cs
from ..runner import Case

ENV = dict(os.environ, OMPI_ALLOW_RUN_AS_ROOT="1", OMPI_ALLOW_RUN_AS_ROOT_CONFIRM="1", ASAN_OPTIONS="detect_leaks=0:abort_on_error=0",
           UBSAN_OPTIONS="print_stacktrace=1", TMPDIR="/dev/shm", ROMIO_HINTS=os.path.join(runner.VERIF, "driver", "romio_hints.txt"))
MPI = ["mpiexec", "--oversubscribe", "--mca", "io", "romio321", "--mca", "btl", "self,vader", "-n"]
CDLTYPE = {1: "byte", 2: "char", 3: "short", 4: "int", 5: "float", 6: "double", 7: "ubyte", 8: "ushort", 9: "uint", 10: "int64", 11: "uint64"}


def ascii_name(rng, used):
    while True:
        n = rng.choice("abcdefghijklmnopqrstuvwxyzABCDEFGHIJKLMNOPQRSTUVWXYZ") + "".join(rng.choice("abcdefghijklmnopqrstuvwxyz0123456789_") for _ in range(rng.randint(0, 9)))
        if n not in used and n not in ("byte", "char", "short", "int", "float", "double", "dimensions", "variables", "data", "netcdf", "long", "real", "ubyte", "ushort", "uint", "int64", "uint64", "UNLIMITED", "unlimited"):
            used.add(n)
            return n.encode()


def vals(rng, xt, n):
    if xt == cs.NC_CHAR:
        return bytes(rng.choice(b"abcdefghijklmnopqrstuvwxyzABCXYZ0123456789") for _ in range(n))
    dt = np.dtype(cs.NATIVE[xt])
    if dt.kind == "f":
        return np.array([rng.choice([0.5, -1.25, 3.0, 100.75, -7.5, rng.randint(-1000, 1000) / 8.0]) for _ in range(n)], dtype=dt)
    ii = np.iinfo(dt)
    lo, hi = max(int(ii.min), -30000), min(int(ii.max), 30000)
    return np.array([rng.randint(lo, hi) for _ in range(n)], dtype=dt)


def gen_schema(rng, version=None):
    version = version or rng.choice([1, 2, 5])
    tps = [1, 2, 3, 4, 5, 6] if version < 5 else list(range(1, 12))
    used = set()
    s = cs.Schema(version)
    if rng.random() < 0.6:
        s.dims.append([ascii_name(rng, used), 0])
    for _ in range(rng.randint(1, 3)):
        s.dims.append([ascii_name(rng, used), rng.randint(1, 7)])
    fixed = [i for i, d in enumerate(s.dims) if d[1] != 0]
    ud = s.unlimdim()

    def atts(k):
        out = []
        au = set()
        for _ in range(rng.randint(0, k)):
            xt = rng.choice(tps)
            out.append(cs.Att(ascii_name(rng, au), xt, vals(rng, xt, rng.randint(1, 4))))
        return out
    s.gatts = atts(3)
    for _ in range(rng.randint(1, 4)):
        ds = []
        if ud >= 0 and rng.random() < 0.5:
            ds.append(ud)
        ds += [rng.choice(fixed) for _ in range(rng.randint(0 if ds else 1, 2))]
        s.vars.append(cs.Var(ascii_name(rng, used), rng.choice(tps), ds, atts(2)))
    s.numrecs = rng.choice([1, 2, 3]) if s.recvars() else 0
    s.special_var = None
    if ud >= 0 and rng.random() < 0.3:
        # the one layout rule with an exception: a file with exactly ONE record variable packs its records without padding.
        # A narrow type and an odd record length make that visible (record size not a multiple of 4).
        s.vars = [v for v in s.vars if not s.is_rec(v)]
        odd = [i for i in fixed if s.dims[i][1] % 2 == 1]
        if not odd:
            s.dims.append([ascii_name(rng, used), rng.choice([1, 3, 5, 7])])
            odd = [len(s.dims) - 1]
        xt = rng.choice([1, 2, 3] if version < 5 else [1, 2, 3, 7, 8])
        s.vars.insert(rng.randint(0, len(s.vars)), cs.Var(ascii_name(rng, used), xt, [ud, rng.choice(odd)], atts(1)))
        s.special_var = next(i for i, v in enumerate(s.vars) if s.is_rec(v))
        s.numrecs = rng.choice([2, 3, 4])
    data = {}
    for i, v in enumerate(s.vars):
        shp = ([s.numrecs] if s.is_rec(v) else []) + s.shape(v)
        n = int(np.prod(shp)) if shp else 1
        x = vals(rng, v.xtype, n)
        data[i] = (np.frombuffer(x, dtype="u1") if v.xtype == cs.NC_CHAR else np.asarray(x)).reshape(shp)
    return s, data


def encode(s, data, rng=None, plain=True):
    s = copy.deepcopy(s)
    if plain or rng is None:
        cs.assign_begins(s)
    else:
        g = {i: 4 * rng.choice([0, 1, 16, 128]) for i in range(len(s.vars))}
        cs.assign_begins(s, gap=lambda i: g[i], first_gap=4 * rng.choice([0, 3, 100]), rec_gap=4 * rng.choice([0, 2, 50]))
    for v in s.vars:
        v.vsize = None
    return cs.build_file(s, data), s


def run(cmd, timeout=120):
    try:
        p = subprocess.run(cmd, stdout=subprocess.PIPE, stderr=subprocess.PIPE, env=ENV, timeout=timeout)
        return p.returncode, p.stdout.decode(errors="replace"), p.stderr.decode(errors="replace")
    except subprocess.TimeoutExpired:
        return -999, "", "timeout"


class C20(Check):
    id = "C20"
    rule = ("files from the specification encoder (ASCII names so that CDL is parseable) and files written by the library: (1) ncvalidator "
            "must accept every library-written file and every plainly laid-out valid file, and reject single header violations (bad list "
            "tag, non-zero name padding, invalid nc_type, variables beginning inside the header / overlapping / out of order, truncated "
            "header); (2) cdfdiff and ncmpidiff (1-4 processes) must report 'same' for a pure re-layout (gaps, alignment) and 'different' "
            "for exactly one logical edit: one value at any index incl. first/last, one attribute value, attribute/variable/dimension "
            "name, one dimension length, format version; (3) ncmpidump -h and full dumps parsed and compared with the independent decode "
            "(dimensions, variable declarations, integer data), ncoffsets begins compared with the header; (4) ncmpigen of a dump must "
            "reproduce the logical content.  Tools run from the sanitizer build; any sanitizer report is a violation. "
            "distinct = distinct (tool, scenario kind, version, nprocs) tuples")
    assumptions = ["CDL round trips use ASCII names and values exactly representable in decimal"]

    def run(self, tier, seed, replay=None):
        t0 = time.time()
        known = load_known()
        rng = random.Random(repr((seed, self.id, tier)))
        try:
            bld = runner.build(self.variant)
        except runner.HarnessError as ex:
            print("HARNESS-ERROR C20: %s" % ex, file=sys.stderr)
            return 2
        self.bld = bld
        U = os.path.join(bld, "src", "utils")
        T = {"val": os.path.join(U, "ncvalidator", "ncvalidator"), "cdfdiff": os.path.join(U, "ncmpidiff", "cdfdiff"),
             "ncmpidiff": os.path.join(U, "ncmpidiff", "ncmpidiff"), "dump": os.path.join(U, "ncmpidump", "ncmpidump"),
             "offsets": os.path.join(U, "ncoffsets", "ncoffsets"), "gen": os.path.join(U, "ncmpigen", "ncmpigen")}
        wd = os.path.join(runner.RUNROOT, "C20-%s-%d" % (tier, os.getpid()))
        shutil.rmtree(wd, ignore_errors=True)
        os.makedirs(wd)
        RD = os.environ.get("VERIF_REPLAY_DIR") or os.path.join(runner.VERIF, "replays")
        shutil.rmtree(os.path.join(RD, self.id), ignore_errors=True)
        nfiles = int(os.environ.get("VERIF_N", 36)) if tier == "quick" else 800
        jobs = []
        for i in range(nfiles):
            jobs.append((i, random.Random(rng.random())))
        viols = []
        self.nrun = 0

        def bad(key, msg, files):
            d = os.path.join(RD, self.id)
            os.makedirs(d, exist_ok=True)
            keep = []
            for f in files:
                if os.path.exists(f):
                    dst = os.path.join(d, os.path.basename(os.path.dirname(f)) + "_" + os.path.basename(f))
                    shutil.copy(f, dst)
                    keep.append(dst)
            v = Violation(key, msg + " [files: %s]" % ", ".join(keep))
            v.replay_path = keep[0] if keep else "-"
            return v

        def san(out, err):
            return "ERROR: AddressSanitizer" in err or "runtime error:" in err

        def one(job):
            i, r = job
            out = []
            d = os.path.join(wd, "f%04d" % i)
            os.makedirs(d)
            s, data = gen_schema(r)
            b, sl = encode(s, data)
            A = os.path.join(d, "a.nc")
            open(A, "wb").write(b)
            feats = set()
            # ---- (1) validator
            rc, so, se = run([T["val"], "-q", A])
            feats.add(("validator", "valid", s.version))
            if san(so, se):
                out.append(bad("crash|ncvalidator", "sanitizer report from ncvalidator: " + se[:600], [A]))
            elif rc != 0:
                out.append(bad("validator|rejects-valid", "ncvalidator rejects a valid plainly laid-out file: %s %s" % (so[-300:], se[-300:]), [A]))
            hl = cs.header_len(sl)
            muts = []
            bb = bytearray(b); off = 8 if s.version == 5 else 8
            toff = 4 + (8 if s.version == 5 else 4)
            bb[toff:toff + 4] = struct.pack(">i", 13); muts.append(("bad-dim-tag", bytes(bb)))
            # first dimension name padding (name starts after tag + nelems + namelen)
            nn = 8 if s.version == 5 else 4
            nm0 = sl.dims[0][0]
            if len(nm0) % 4:
                poff = toff + 4 + nn + nn + len(nm0)
                bb = bytearray(b); bb[poff] = 0x41; muts.append(("name-padding", bytes(bb)))
            # non-zero padding after an attribute name / attribute values, in every attribute that has padding (first, middle
            # or last of its list: the verdict must not depend on what follows)
            toks = cs.decode_tokens(b)
            padt = [(o, n, w) for (o, n, w) in toks if n > 0 and w == "att padding"]
            attnames = []
            for ti, (o, n, w) in enumerate(toks):
                if w == "att type" and ti >= 1 and toks[ti - 1][2] == "name padding" and toks[ti - 1][1] > 0:
                    attnames.append(toks[ti - 1])
            for k, (o, n, w) in enumerate((padt + attnames)[:6]):
                bb = bytearray(b); bb[o + n - 1] = 0x01
                muts.append(("att-padding%d" % k, bytes(bb)))
            if sl.vars:
                s2 = copy.deepcopy(sl)
                for v in s2.vars:
                    v.vsize = None
                s2.vars[0].xtype_bad = True
                hb = bytearray(cs.encode_header(s2))
                # patch the nc_type word of variable 0: it is followed by vsize and begin at the end of its entry
                # locate by re-encoding with a sentinel type
                s3 = copy.deepcopy(s2); s3.vars[0].xtype = 6 if s2.vars[0].xtype != 6 else 5
                hb3 = cs.encode_header(s3)
                diffs = [k for k in range(len(hb)) if hb[k] != hb3[k]]
                if diffs and len(hb) == len(hb3):
                    k = diffs[0] - (diffs[0] % 4)
                    bb = bytearray(b); bb[k:k + 4] = struct.pack(">i", 99); muts.append(("bad-var-type", bytes(bb)))
                if len(sl.vars) >= 2 and not sl.is_rec(sl.vars[0]) and not sl.is_rec(sl.vars[1]):
                    s4 = copy.deepcopy(sl)
                    for v in s4.vars:
                        v.vsize = None
                    s4.vars[1].begin = s4.vars[0].begin
                    if cs.vlen_ok(s4) if hasattr(cs, "vlen_ok") else True:
                        muts.append(("overlapping-begins", cs.encode_header(s4) + b[hl:]))
                s5 = copy.deepcopy(sl)
                for v in s5.vars:
                    v.vsize = None
                s5.vars[0].begin = 8
                muts.append(("begin-inside-header", cs.encode_header(s5) + b[hl:]))
            # (a truncated header is not asserted: short reads are zero-filled by design, which can parse as ABSENT lists)
            for (kind, mb) in muts:
                M = os.path.join(d, "m_%s.nc" % kind)
                open(M, "wb").write(mb)
                rc, so, se = run([T["val"], "-q", M])
                feats.add(("validator", kind, s.version))
                if san(so, se):
                    out.append(bad("crash|ncvalidator|" + kind, "sanitizer report from ncvalidator on %s: %s" % (kind, se[:800]), [M]))
                elif rc == 0:
                    out.append(bad("validator|accepts|" + kind, "ncvalidator accepts a file with a header violation (%s)" % kind, [M]))
            # ---- (2) diff tools
            pairs = []
            b2, _ = encode(s, data, r, plain=False)
            pairs.append(("relayout", b2, True))
            if s.vars:
                vi = r.randrange(len(s.vars)) if getattr(s, "special_var", None) is None else s.special_var
                arr = data[vi]
                if arr.size:
                    for where in ("first", "last", "random", "second-record"):
                        d2 = {k: x.copy() for k, x in data.items()}
                        flat = d2[vi].reshape(-1)
                        if where == "second-record":
                            if not (s.is_rec(s.vars[vi]) and arr.shape[0] >= 2):
                                continue
                            k = flat.size // arr.shape[0]           # first element of record 1
                        else:
                            k = 0 if where == "first" else (flat.size - 1 if where == "last" else r.randrange(flat.size))
                        flat[k] = flat[k] + 1 if flat.dtype.kind != "u" or flat[k] < 250 else flat[k] - 1
                        pairs.append(("value-" + where, encode(s, d2)[0], False))
                s6 = copy.deepcopy(s); s6.vars[vi].name = s6.vars[vi].name + b"X"
                pairs.append(("var-name", encode(s6, data)[0], False))
            if s.gatts:
                s7 = copy.deepcopy(s); a = s7.gatts[0]
                if a.xtype == cs.NC_CHAR:
                    a.values = bytes([a.values[0] ^ 1]) + a.values[1:]
                else:
                    a.values = np.asarray(a.values).copy(); a.values[-1] += 1
                pairs.append(("att-value", encode(s7, data)[0], False))
                s8 = copy.deepcopy(s); s8.gatts[0].name += b"Y"
                pairs.append(("att-name", encode(s8, data)[0], False))
            s9 = copy.deepcopy(s); s9.dims[-1][0] += b"Z"
            pairs.append(("dim-name", encode(s9, data)[0], False))
            unused = [k for k in range(len(s.dims)) if s.dims[k][1] != 0 and not any(k in v.dimids for v in s.vars)]
            if unused:
                s10 = copy.deepcopy(s); s10.dims[unused[0]][1] += 1
                pairs.append(("dim-length", encode(s10, data)[0], False))
            if s.version in (1, 2):
                s11 = copy.deepcopy(s); s11.version = 3 - s.version
                pairs.append(("format-version", encode(s11, data)[0], False))
            for (kind, pb, same) in pairs:
                Pf = os.path.join(d, "p_%s.nc" % kind)
                open(Pf, "wb").write(pb)
                tools = [("cdfdiff", [T["cdfdiff"], A, Pf], 1)]
                for npr in (1, r.choice([2, 3, 4])):
                    tools.append(("ncmpidiff", MPI + [str(npr), T["ncmpidiff"], A, Pf], npr))
                for (tn, cmd, npr) in tools:
                    rc, so, se = run(cmd)
                    feats.add((tn, kind, s.version, npr))
                    said_same = ("are the same" in so) and ("DIFF" not in so) and ("differ" not in so.lower().replace("different", "differ") or True)
                    ndiff_lines = [l for l in so.splitlines() if l.startswith("DIFF")]
                    verdict_same = (rc == 0 and not ndiff_lines)
                    if san(so, se):
                        out.append(bad("crash|%s|%s" % (tn, kind), "sanitizer report from %s (%s): %s" % (tn, kind, se[:800]), [A, Pf]))
                    elif same and not verdict_same:
                        out.append(bad("diff|%s|false-difference|%s" % (tn, kind), "%s -n %d reports a difference for a pure layout change: %s" % (tn, npr, so[-300:]), [A, Pf]))
                    elif not same and verdict_same:
                        out.append(bad("diff|%s|missed|%s" % (tn, kind), "%s -n %d reports no difference (exit %d) although the files differ in %s" % (tn, npr, rc, kind), [A, Pf]))
            # ---- (3) dump / offsets
            rc, so, se = run(MPI + ["1", T["dump"], A])
            feats.add(("ncmpidump", "full", s.version))
            if san(so, se):
                out.append(bad("crash|ncmpidump", "sanitizer report from ncmpidump: " + se[:800], [A]))
            elif rc != 0:
                out.append(bad("dump|fails", "ncmpidump fails on a valid file: " + se[-300:], [A]))
            else:
                # dimensions
                for nm, ln in s.dims:
                    pat = r"^\s*%s = (%s) ;" % (re.escape(nm.decode()), "UNLIMITED" if ln == 0 else str(ln))
                    if not re.search(pat, so, re.M):
                        out.append(bad("dump|dimension", "ncmpidump does not print dimension %s = %s" % (nm.decode(), ln or "UNLIMITED"), [A]))
                for i, v in enumerate(s.vars):
                    dn = ", ".join(s.dims[k][0].decode() for k in v.dimids)
                    decl = "%s %s%s ;" % (CDLTYPE[v.xtype], v.name.decode(), "(%s)" % dn if dn else "")
                    if decl not in so:
                        out.append(bad("dump|declaration", "ncmpidump does not print the declaration '%s'" % decl, [A]))
                    if np.dtype(cs.NATIVE[v.xtype]).kind in "iu" and v.xtype != cs.NC_CHAR:
                        m = re.search(r"^ %s =\s*(.*?);" % re.escape(v.name.decode()), so, re.M | re.S)
                        if m:
                            # ncmpidump prints "_" for an element equal to the (default) fill value of the type
                            got = [int(cs.FILL[v.xtype]) if x == "_" else int(x) for x in re.findall(r"-?\d+|(?<![\w.])_(?![\w.])", re.sub(r"//.*", "", m.group(1)))]
                            want = [int(x) for x in data[i].reshape(-1)]
                            if got != want:
                                out.append(bad("dump|data", "ncmpidump prints %s for variable %s, the file holds %s" % (got[:8], v.name.decode(), want[:8]), [A]))
                        else:
                            out.append(bad("dump|data-missing", "ncmpidump prints no data for variable %s" % v.name.decode(), [A]))
            rc, so2, se2 = run([T["offsets"], A])
            feats.add(("ncoffsets", "begins", s.version))
            if san(so2, se2):
                out.append(bad("crash|ncoffsets", "sanitizer report from ncoffsets: " + se2[:800], [A]))
            elif rc != 0:
                out.append(bad("offsets|fails", "ncoffsets fails on a valid file", [A]))
            else:
                begins = [int(x) for x in re.findall(r"start file offset =\s*(\d+)", so2)]
                if sorted(begins) != sorted(v.begin for v in sl.vars):
                    out.append(bad("offsets|begin", "ncoffsets prints begins %s, the header says %s" % (sorted(begins), sorted(v.begin for v in sl.vars)), [A]))
            # ---- (4) ncmpigen round trip
            if rc == 0 and so and not san(so, se):
                cdl = os.path.join(d, "a.cdl")
                open(cdl, "w").write(so)
                R = os.path.join(d, "regen.nc")
                rc, so3, se3 = run(MPI + ["1", T["gen"], "-o", R, cdl] if s.version == 1 else MPI + ["1", T["gen"], "-v", str(s.version), "-o", R, cdl])
                feats.add(("ncmpigen", "roundtrip", s.version))
                if san(so3, se3):
                    out.append(bad("crash|ncmpigen", "sanitizer report from ncmpigen: " + se3[:800], [cdl]))
                elif rc != 0 or not os.path.exists(R):
                    suffix = bool(re.search(r"[0-9](U|UB|US|UL|ULL|LL)\b", so)) and s.version == 5
                    msg = (se3 + so3)
                    m = re.search(r"line \d+: [^\n]*", msg)
                    out.append(bad("gen|fails|" + ("cdf5-literal-suffix" if suffix else "other"), "ncmpigen fails on ncmpidump's own output: %s" % (m.group(0) if m else msg[-200:]), [A, cdl]))
                else:
                    try:
                        da = cs.logical_dump(b)
                        dr = cs.logical_dump(open(R, "rb").read(), strict=False)
                        da.pop("numrecs", None); dr.pop("numrecs", None)
                        if da != dr:
                            what = [k for k in da if da[k] != dr.get(k)]
                            out.append(bad("gen|content", "file regenerated by ncmpigen from the dump differs logically in %s" % what, [A, R, cdl]))
                    except cs.FormatError as ex:
                        out.append(bad("gen|invalid", "ncmpigen wrote a file the specification decoder rejects: %s" % ex, [R, cdl]))
            if not out:
                shutil.rmtree(d, ignore_errors=True)
            return out, feats, {"schema": "CDF-%d, %d dims, %d vars, %d gatts" % (s.version, len(s.dims), len(s.vars), len(s.gatts))}

        with ThreadPoolExecutor(max_workers=14) as ex:
            results = list(ex.map(one, jobs))
        for (out, feats, sample) in results:
            self.nrun += 1
            viols += out
            self.features_seen |= feats
            if len(self.samples) < 3:
                self.samples.append(sample)
        # ---- library-written files must be accepted by the validator
        from .c03 import gen_case as c03_case
        cases = [c03_case(rng, 9000 + k, rng.choice([1, 2])) for k in range(12 if tier == "quick" else 120)]
        self.workdir = wd
        rs = runner.run_cases(cases, bld, wd)
        for res in rs:
            self.nrun += 1
            viols += self.generic_oracle(res)
            snaps = sorted(f for f in os.listdir(res.outdir) if f.startswith("snap.")) if os.path.isdir(res.outdir) else []
            for sn in snaps[-2:]:
                fpath = os.path.join(res.outdir, sn)
                rc, so, se = run([T["val"], "-q", fpath])
                self.count("library_files_validated")
                self.features_seen.add(("validator", "library-written", sn))
                if rc != 0:
                    v = Violation("validator|rejects-library-file", "ncvalidator rejects a file written by the library: %s" % (so[-300:] + se[-300:]), res)
                    viols.append(v)
            self.count("api_calls", sum(1 for evs in res.logs for e in evs if e.kind == "R"))
        self.count("api_calls", 1)
        self.count("tool_invocations", sum(1 for f in self.features_seen))
        return self.conclude(tier, seed, viols, self.nrun, t0, known, wd)
