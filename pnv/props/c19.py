"""C19 -- memory safety on every program; malformed files fail cleanly."""
import os, struct, random
import numpy as np
from ..core import Check, Violation, Script
from ..runner import Case
from ..model import Expect
from .. import cdfspec as cs
from .c04 import gen_file, CHUNK

D4 = [0, 1, 2, 0x7FFFFFFF, 0x80000000, 0xFFFFFFFF, 0x7FFFFFFE, 10, 11, 12, 13, 257, 0x10000, 7, 20, 0x01000000, 0xFFFFFFFE, 0x80000001]
D8 = [0, 1, 1 << 31, (1 << 32) - 1, 1 << 32, (1 << 63) - 1, 1 << 63, (1 << 64) - 1, (1 << 40) + 3]
PER_CASE = 12


def mutants(rng, seedbytes, hl, version, budget, tier):
    out = []
    n = len(seedbytes)
    # truncations
    step = 1 if tier != "quick" else 3
    for L in range(0, min(n, hl + 40), step):
        out.append(("trunc%d" % L, seedbytes[:L]))
    # single-field substitutions
    words = list(range(0, min(hl, n - 4) + 1, 4))
    for off in words:
        vals = D4 if tier != "quick" else rng.sample(D4, 4)
        for val in vals:
            b = bytearray(seedbytes)
            b[off:off + 4] = struct.pack(">I", val)
            out.append(("w4@%d=%x" % (off, val), bytes(b)))
        if version == 5 and off + 8 <= n:
            vals8 = D8 if tier != "quick" else rng.sample(D8, 2)
            for val in vals8:
                b = bytearray(seedbytes)
                b[off:off + 8] = struct.pack(">Q", val)
                out.append(("w8@%d=%x" % (off, val), bytes(b)))
    # random multi-field corruptions and bit flips
    for k in range(60 if tier == "quick" else 600):
        b = bytearray(seedbytes)
        for _ in range(rng.randint(2, 4)):
            off = rng.choice(words)
            if rng.random() < 0.5:
                b[off:off + 4] = struct.pack(">I", rng.choice(D4))
            else:
                b[off + rng.randint(0, 3)] ^= 1 << rng.randint(0, 7)
        out.append(("multi%d" % k, bytes(b)))
    if budget and len(out) > budget:
        out = rng.sample(out, budget)
    return out


def make_case(name, nprocs, group):
    sc = Script()
    files = {}
    lines = []
    for k, (tag, b) in enumerate(group):
        fn = "m%d.nc" % k
        files[fn] = b
        lo = sc.add("*", "open", f=k, path="s:@OUT@/" + fn, omode=0, info="-")
        ls = sc.add("*", "sweep", f=k)
        lr = sc.add("*", "readsome", f=k, max=32768)
        lc = sc.add("*", "close", f=k)
        lines.append({"tag": tag, "open": lo, "sweep": ls, "read": lr, "close": lc, "size": len(b)})
    lm = sc.add("*", "inq", what="malloc")
    sc.add("*", "balance", final=1)
    c = Case(name, nprocs, sc.lines, meta={"files": lines, "malloc": lm, "maxsize": max(len(b) for _, b in group)}, timeout=60)
    c.files = files
    return c


class C19(Check):
    id = "C19"
    rule = ("seed files in CDF-1/2/5 from the specification encoder; every truncation length of the header region, every 4-byte (and, in "
            "CDF-5, 8-byte) header word replaced by each value of a dictionary of extremes, random multi-field corruptions and bit flips; "
            "plus valid multi-chunk headers with an 8-byte field straddling the 256 KiB read-chunk boundary; each input is opened on 1-2 ranks on the ASan+UBSan build, then fully inquired and (bounded) read if it opens.  Oracle: no "
            "sanitizer report, no abnormal termination, no hang; open returns a netCDF error or the inquiries are self-consistent; header "
            "fetches (MPI-IO reads during open, counted by the shim) <= size/chunk + 3 and peak library heap <= 64 x file size + 8 MiB "
            "(logical resource bounds, no wall-clock).  The sanitizer side of the property is additionally monitored in every workload of "
            "every other check, and a sample of valid programs of the C07/C01/C02 generators is run here under the memory-safety monitors.  distinct = distinct (seed, mutation kind, outcome) tuples")
    assumptions = ["the sanitizer runtime returns NULL for allocations above 2 GiB (allocator_may_return_null) so absurd sizes surface as NC_ENOMEM instead of an abort"]

    def generate(self, tier, rng):
        nseeds = 6 if tier == "quick" else 30
        budget = int(os.environ.get("VERIF_N", 700)) if tier == "quick" else None
        ci = 0
        for si in range(nseeds):
            for _ in range(50):
                s, data, b = gen_file(rng)
                if len(s.vars) >= 1 and cs.header_len(s) < 700:
                    break
            hl = cs.header_len(s)
            ms = mutants(rng, b, hl, s.version, budget, tier)
            for k in range(0, len(ms), PER_CASE):
                grp = ms[k:k + PER_CASE]
                yield make_case("c19_%02d_%05d" % (si, ci), 1 if (ci % 4) else 2, [("s%d:%s" % (si, t), x) for t, x in grp])
                ci += 1

        # valid files whose header is larger than one read chunk, with an 8-byte field starting 4 bytes before the chunk
        # boundary (see C04): the parser must refill its buffer there without reading outside it
        nbig = 9 if tier == "quick" else 90
        for k in range(0, nbig, 3):
            grp = []
            for j in range(3):
                s, data, b = gen_file(rng, big=(k + j) % 70)
                grp.append(("big%d:valid%d" % (k + j, s.version), b))
            yield make_case("c19_big_%05d" % k, 1 if (k // 3) % 2 else 2, grp)

        # otherwise well-formed files in which ONE name is longer than NC_MAX_NAME (256 bytes), all its bytes present:
        # must be refused (or handled) without ever copying the name into a caller's NC_MAX_NAME+1 buffer.  Private generator.
        import random
        prng = random.Random(hash(rng.getstate()[1][:4]) & 0xffffffff)      # varies with VERIF_SEED, consumes nothing
        nlong = 12 if tier == "quick" else 120
        grp = []
        for k in range(nlong):
            for _ in range(50):
                s, data, b = gen_file(prng)
                if len(s.vars) >= 1 and len(s.dims) >= 1 and cs.header_len(s) < 4000:
                    break
            L = [257, 300, 600, 1000, 1024, 1025, 260, 512, 768, 2048, 4096, 258][k % 12]
            nm = bytes(prng.choice(b"abcdefghijklmnopqrstuvwxyz") for _ in range(L))
            objs = [("dim", d) for d in s.dims] + [("var", v) for v in s.vars] + [("gatt", a) for a in s.gatts] + [("vatt", a) for v in s.vars for a in v.atts]
            kind, o = objs[(k // 3) % len(objs)] if k % 2 else prng.choice(objs)
            if kind == "dim":
                o[0] = nm
            else:
                o.name = nm
            for v in s.vars:
                v.vsize = None
            cs.assign_begins(s)
            b = cs.build_file(s, data, filler=0)
            grp.append(("longname:%s%d:v%d" % (kind, L, s.version), b))
            if len(grp) == 3 or k == nlong - 1:
                yield make_case("c19_long_%05d" % k, 1 if (k // 3) % 2 else 2, grp)
                grp = []

        # "... and for every script executed by the other properties' generators when run against the sanitizer build": a
        # sample of valid programs of three generators that stress metadata (attribute overwrites with other types and sizes,
        # renames, deletes), blocking and nonblocking data paths; only the memory-safety monitors are applied to them here
        from . import c07, c01, c02
        nv = 120 if tier == "quick" else 1500
        for k in range(nv):
            yield c07.gen_case(rng, 900000 + k, rng.choice([1, 1, 2]), safe=(rng.random() < 0.3))
        for k in range(nv // 3):
            yield c01.gen_case(rng, 900000 + k, rng.choice([1, 2, 3]))
            yield c02.gen_case(rng, 900000 + k, rng.choice([1, 2, 3]))

    def features(self, res):
        return res.case.name

    def hang_site(self, res, oc):
        for f in res.case.meta.get("files", []):
            for e in oc:
                if e is not None and e.line in (f["open"], f["sweep"], f["read"], f["close"]):
                    kind = f["tag"].split(":")[1].rstrip("0123456789abcdef=@")
                    return "%s|%s" % (e.op, kind)
        return "?"

    def oracle(self, res):
        v = []
        m = res.case.meta
        if "files" not in m:
            self.count("valid_programs_monitored")
            return v          # a valid program of another generator: sanitizer / abort / hang / invariant monitors only
        for rank in range(res.case.nprocs):
            ret = res.ret(rank)
            for f in m["files"]:
                eo = ret.get(f["open"])
                if eo is None:
                    continue
                self.count("inputs_opened")
                err = eo.geti("err")
                kind = f["tag"].split(":")[1].split("@")[0].rstrip("0123456789")
                self.features_seen.add((f["tag"].split(":")[0], kind, "ok" if err == 0 else err))
                nfetch = sum(1 for e in res.logs[rank] if e.kind == "M" and e.line == f["open"] and e.op in ("RIND_AT", "RCOLL_AT", "RIND", "RCOLL"))
                if nfetch > f["size"] // CHUNK + 3:
                    v.append(Violation("resource|fetches|" + kind, "open of %s (%d bytes) issued %d header reads" % (f["tag"], f["size"], nfetch), res))
                if err > 0:
                    v.append(Violation("open|positive-code", "ncmpi_open of %s returned %d" % (f["tag"], err), res))
                if err != 0:
                    continue
                self.count("inputs_accepted")
                sw = [e for e in res.logs[rank] if e.kind == "S" and e.line == f["sweep"]]
                fe = [e for e in sw if e.op == "file"]
                if fe and any(x != "0" for x in fe[0].kv.get("err", "").split(",")):
                    v.append(Violation("inconsistent|file|" + kind, "file %s opened but ncmpi_inq*/header inquiries fail: %s" % (f["tag"], fe[0].kv.get("err")), res))
                for e in sw:
                    if e.op in ("dim", "var") and "same" in e.kv:
                        errs = e.kv.get("err", "").split(",")
                        byname_ok = True
                        # lookups by id must succeed and agree with each other
                        idx = [0, 2, 3] if e.op == "dim" else [0, 2, 4]
                        if any(errs[i] != "0" for i in idx if i < len(errs)) or e.kv.get("same") != "1":
                            v.append(Violation("inconsistent|%s|%s" % (e.op, kind), "file %s opened but inquiries on %s %s are inconsistent: %s" % (f["tag"], e.op, e.kv.get("d", e.kv.get("v")), e.raw[:200]), res))
                    if e.op == "dim" and e.geti("len", 0) < 0:
                        v.append(Violation("inconsistent|negative-length|" + kind, "file %s opened with dimension %s of length %s" % (f["tag"], e.kv.get("d"), e.kv.get("len")), res))
                    if e.kind == "S" and e.op == "readsome" and e.kv.get("guard") == "0":
                        v.append(Violation("guard|readsome", "read of %s wrote outside the buffer" % f["tag"], res))
            em = ret.get(m["malloc"])
            if em is not None:
                peak = em.geti("val2", 0)
                if peak > 64 * m["maxsize"] + (8 << 20):
                    v.append(Violation("resource|heap", "peak library heap %d bytes for inputs of at most %d bytes" % (peak, m["maxsize"]), res))
        return v
