"""C10 -- hints, process count and execution modes never change results."""
import os, json, hashlib
import numpy as np
from ..core import Check, Violation, hx
from ..runner import Case
from ..dataprog import NBProg, check_final_file, types_for, select, conv_x2m
from ..model import check_expectations, Expect, XT2MEM, MEM, TD, random_td, safe_range
from .. import cdfspec as cs


def gen_global_program(rng):
    """decomposition-independent program: schema + list of global operations"""
    version = rng.choice([1, 2, 5])
    dims = []
    if rng.random() < 0.75:
        dims.append((b"rec", 0))
    for k in range(rng.randint(1, 3)):
        dims.append((b"d%d" % k, rng.randint(2, 9)))
    fixed = [i for i, d in enumerate(dims) if d[1] != 0]
    vars_ = []
    for k in range(rng.randint(1, 4)):
        isrec = dims[0][1] == 0 and rng.random() < 0.5
        ds = ([0] if isrec else []) + [rng.choice(fixed) for _ in range(rng.randint(1, 2))]
        vars_.append((b"v%d" % k, rng.choice([t for t in types_for(version) if t != 2]), ds))
    ops = []
    nrec = 0
    for _ in range(rng.randint(4, 9)):
        k = rng.random()
        vid = rng.randrange(len(vars_))
        name, xt, ds = vars_[vid]
        shape = [dims[d][1] for d in ds]
        isrec = dims[ds[0]][1] == 0
        if isrec:
            shape[0] = max(nrec, 1) + rng.choice([0, 1, 2, 4, 7])
        st = [rng.randint(0, L - 1) for L in shape]
        ct = [rng.randint(1, L - s) for s, L in zip(st, shape)]
        sd = [1] * len(shape)
        if k < 0.45 and rng.random() < 0.4:
            # strided selection (also along the record dimension)
            for d, L in enumerate(shape):
                if rng.random() < 0.6 and L - st[d] >= 3:
                    sd[d] = rng.choice([2, 3])
                    ct[d] = rng.randint(1, (L - 1 - st[d]) // sd[d] + 1)
        if k < 0.45:
            mt = rng.choice([XT2MEM[xt], "double", "int", "longlong", "short"])
            lo, hi = safe_range(mt, xt)
            lo, hi = max(lo, -30000), min(hi, 30000)
            n = int(np.prod(ct))
            vals = [rng.randint(lo, hi) for _ in range(n)]
            ops.append(("put", vid, st, ct, mt, vals, rng.choice(["vara", "vars", "varm"]) if all(x == 1 for x in sd) else rng.choice(["vars", "varm"]), rng.random() < 0.35, sd))
            if isrec:
                nrec = max(nrec, st[0] + (ct[0] - 1) * sd[0] + 1)
        elif k < 0.8:
            if isrec and nrec == 0:
                continue
            if isrec:
                st[0] = min(st[0], nrec - 1)
                ct[0] = min(ct[0], nrec - st[0])
            ops.append(("get", vid, st, ct, rng.choice([XT2MEM[xt], "double"]), None, rng.choice(["vara", "vars"]), False, None))
        elif k < 0.9:
            ops.append(("redef", len(ops), rng.choice([10, 600, 5000])))
        else:
            ops.append(("sync",))
    return {"version": version, "dims": dims, "vars": vars_, "ops": ops}


def gen_stride_program(rng):
    """stride-stress program: larger dimensions, almost every put strided with >= 3 rows selected in the slow
    dimensions (what the flattening code of the aggregation / nonblocking paths has to get right)"""
    version = rng.choice([1, 2, 5])
    dims = []
    if rng.random() < 0.5:
        dims.append((b"rec", 0))
    for k in range(2):
        dims.append((b"d%d" % k, rng.randint(7, 12)))
    fixed = [i for i, d in enumerate(dims) if d[1] != 0]
    vars_ = []
    for k in range(rng.randint(2, 3)):
        isrec = dims[0][1] == 0 and rng.random() < 0.5
        ds = ([0] if isrec else []) + (fixed if rng.random() < 0.7 else fixed[::-1])
        vars_.append((b"v%d" % k, rng.choice([t for t in types_for(version) if t != 2]), ds))
    ops = []
    nrecs = {}
    for _ in range(rng.randint(5, 8)):
        vid = rng.randrange(len(vars_))
        name, xt, ds = vars_[vid]
        shape = [dims[d][1] for d in ds]
        isrec = dims[ds[0]][1] == 0
        if isrec:
            shape[0] = rng.choice([5, 7, 9])
        st, ct, sd = [], [], []
        for L in shape:
            s = rng.randint(0, 2)
            d = rng.choice([2, 2, 3]) if rng.random() < 0.8 else 1
            mx = (L - 1 - s) // d + 1
            c = mx if rng.random() < 0.6 else rng.randint(min(3, mx), mx)
            st.append(s); sd.append(d); ct.append(c)
        mt = rng.choice([XT2MEM[xt], "double", "int"])
        lo, hi = safe_range(mt, xt)
        lo, hi = max(lo, -30000), min(hi, 30000)
        vals = [rng.randint(lo, hi) for _ in range(int(np.prod(ct)))]
        ops.append(("put", vid, st, ct, mt, vals, rng.choice(["vars", "varm"]) if any(x != 1 for x in sd) else "vara", rng.random() < 0.4, sd))
        if isrec:
            nrecs["n"] = max(nrecs.get("n", 0), st[0] + (ct[0] - 1) * sd[0] + 1)
    for vid, (name, xt, ds) in enumerate(vars_):
        shape = [dims[d][1] for d in ds]
        if dims[ds[0]][1] == 0:
            if not nrecs.get("n"):
                continue
            shape[0] = nrecs["n"]
        ops.append(("get", vid, [0] * len(shape), shape, XT2MEM[xt], None, "vara", False, None))
    return {"version": version, "dims": dims, "vars": vars_, "ops": ops}


CONFIG_SPACE = {
    "nc_header_align_size": [1, 4, 512, 1000, 4096],
    "nc_record_align_size": [1, 4, 512, 1000],
    "nc_var_align_size": [1, 4, 512],
    "nc_ibuf_size": [1, 64],
    "nc_in_place_swap": ["enable", "disable", "auto"],
    "nc_hash_size_dim": [1, 2], "nc_hash_size_var": [1, 3], "nc_hash_size_gattr": [1, 2], "nc_hash_size_vattr": [1],
    "romio_no_indep_rw": ["true"],
    "nc_header_read_chunk_size": [1, 64, 1024],
}


def gen_config(rng, maxp):
    nprocs = rng.choice([1, 2, 3, 4, 5] if maxp <= 4 else [1, 2, 3, 4, 5, 7, 8])      # 5, 7: process counts no group size divides
    hints = {}
    for k, vals in CONFIG_SPACE.items():
        if rng.random() < 0.3:
            hints[k] = rng.choice(vals)
    if nprocs > 1 and rng.random() < 0.5:
        hints["nc_num_aggrs_per_node"] = rng.randint(1, nprocs) if rng.random() < 0.2 else rng.randint(1, nprocs - 1)
    return {"nprocs": nprocs, "hints": hints, "safe": rng.random() < 0.25, "envhints": rng.random() < 0.25, "nonblocking": rng.random() < 0.4}


def render(prog, cfg, name, seed):
    import random
    rng = random.Random(seed)      # only used for choices that must not influence results (buffer datatypes etc.)
    np_ = cfg["nprocs"]
    hs = ";".join("%s:%s" % kv for kv in sorted(cfg["hints"].items()))
    env = {}
    if cfg["safe"]:
        env["PNETCDF_SAFE_MODE"] = "1"
    info = hs or None
    if cfg["envhints"] and hs:
        env["PNETCDF_HINTS"] = ";".join("%s=%s" % kv for kv in sorted(cfg["hints"].items()))
        info = None
    p = NBProg(rng, np_, "@OUT@/c10.nc", version=prog["version"], info=info)
    p.create()
    for n, l in prog["dims"]:
        p.def_dim(n, l)
    for n, xt, ds in prog["vars"]:
        p.def_var(n, xt, ds)
    p.enddef()
    p.emit("*", "sweep", None, f=p.f)
    infoline = p.emit(0, "inq", None, f=p.f, what="info")
    getlines = []      # (op index, line on rank 0)
    errlines = []
    pending = False
    for oi, op in enumerate(prog["ops"]):
        if op[0] == "put":
            _, vid, st, ct, mt, vals, form, nb, sd = op
            v = p.fm.vars[vid]
            # split along one dimension (chosen per rendering) among the ranks
            kd = rng.randrange(len(ct))
            pieces = p.split_even(ct[kd], np_)
            vals_arr = np.array(vals, dtype=object).reshape(ct)
            use_nb = nb and cfg["nonblocking"]
            opkeys = p._keys(select(st, ct, sd), v.ndims)
            if pending and ((opkeys & p.pend_put.get(vid, set())) or not use_nb):
                # never two writes of one element in flight, and a blocking put does not overtake pending ones
                p.complete("wait", True, {r: "all" for r in range(np_)})
                pending = False
            for r, (a, b) in enumerate(pieces):
                sst, cct = list(st), list(ct)
                sst[kd] = st[kd] + a * sd[kd]
                cct[kd] = b - a
                if b <= a:
                    sst, cct = [0] * len(st), [0] * len(ct)
                sub = np.take(vals_arr, list(range(a, b)), axis=kd).reshape(-1)
                line = p.put_values(r, vid, sst, cct, mt, sub, form, nb=use_nb, sd=sd)
                if r == 0:
                    errlines.append((oi, line))
            if use_nb:
                # several nonblocking puts may accumulate (in any file order, possibly from one rank only) before one
                # collective wait_all completes them
                pending = True
                if rng.random() < 0.4:
                    p.complete("wait", True, {r: "all" for r in range(np_)})
                    pending = False
        elif op[0] == "get":
            _, vid, st, ct, mt, _, form, _, _ = op
            if pending:
                p.complete("wait", True, {r: "all" for r in range(np_)})
                pending = False
            p.sync3()
            for r in range(np_):
                line, _ = p.one_access("get", r, vid, st, ct, [1] * len(ct), True, form=form, mt=mt)
                if r == 0:
                    getlines.append((oi, line))
        elif op[0] == "redef":
            if pending:
                p.complete("wait", True, {r: "all" for r in range(np_)})
                pending = False
            p.redef()
            n = op[2]
            p.emit("*", "put_att", Expect(0), f=p.f, v=-1, name=hx(b"a%d" % op[1]), mt="text", n=n, data="rep:%02x:%d" % (0x61 + op[1] % 20, n))
            p.fm.gatts.append(cs.Att(b"a%d" % op[1], 2, bytes([0x61 + op[1] % 20]) * n))
            p.enddef()
        else:
            if pending:
                p.complete("wait", True, {r: "all" for r in range(np_)})
                pending = False
            p.sync3()
    if pending:
        p.complete("wait", True, {r: "all" for r in range(np_)})
    p.sync3()
    p.read_all()
    p.close()
    p.emit("*", "barrier")
    p.emit(0, "snapshot", path="s:@OUT@/c10.nc", tag="final")
    p.emit("*", "balance", final=1)
    return Case(name, np_, p.s.lines, env=env, meta={"expect": p.expect, "fm": p.fm, "feat": set(), "cfg": cfg, "getlines": getlines, "errlines": errlines, "infoline": infoline})


def _split_even(self, n, parts):
    base, rem = divmod(n, parts)
    out, a = [], 0
    for i in range(parts):
        b = a + base + (1 if i < rem else 0)
        out.append((a, b))
        a = b
    return out


def _put_values(self, rank, vid, st, ct, mt, vals, form, nb=False, sd=None):
    """put explicit values (python ints, canonical order)"""
    sd = list(sd) if sd is not None else [1] * len(ct)
    v = self.fm.vars[vid]
    nelem = int(np.prod(ct))
    xv = np.array([int(x) for x in vals], dtype=object).astype(v.dt) if nelem else np.zeros(0, v.dt)
    mv = conv_x2m(xv, v.xtype, mt)
    kw = self.access_args(form, st, ct, sd, None)
    kw.update(f=self.f, v=vid, form=form, mt=mt, data="hex:" + mv.tobytes().hex())
    if nelem > 0 and self.rng.random() < 0.45:
        # the same values through the flexible API and a derived buffer datatype with gaps, chosen per rendering: how the
        # caller lays its buffer out must not influence the result either (nor must packing / in-place swap decisions)
        base = TD.prim_(mt)
        td = None
        for _ in range(5):
            t = random_td(self.rng, mt, passthrough_safe=(base.psize == 1))
            if t.kind != "prim" and nelem % len(t.tm) == 0:
                td = t
                break
        if td is None:
            td = base.vector(nelem, 1, self.rng.randint(2, 3)) if self.rng.random() < 0.7 else base.contig(nelem)
        per = len(td.tm)
        bufcount = nelem // per
        buf = np.full(td.span(bufcount), 0xC7, dtype=np.uint8)
        pos = td.positions(nelem)
        rb = np.frombuffer(mv.tobytes(), dtype=np.uint8).reshape(nelem, td.psize)
        for k in range(td.psize):
            buf[pos + k] = rb[:, k]
        td.emit(self.s, rank, self.tslot)
        kw.update(mt="flex", bufcount=bufcount, buftype=td.ref(), data="hex:" + buf.tobytes().hex())
    idx = select(st, ct, sd)
    if nb:
        self.bslot = (self.bslot + 1) % 4000
        self.rslot = (self.rslot + 1) % 4000
        line = self.emit(rank, "iput", Expect(0, what="iput global op"), buf=self.bslot, req=self.rslot, **kw)
        keys = self._keys(idx, v.ndims)
        rq = {"kind": "iput", "rank": rank, "vid": vid, "keys": keys, "rslot": self.rslot, "bslot": self.bslot, "line": line, "scribbled": False,
              "nbytes_x": nelem * cs.XSZ[v.xtype], "isrec": v.isrec, "maxrec": (int(idx[0].max()) + 1 if v.isrec and nelem else 0), "idx": idx, "vals": xv}
        self.pend_put.setdefault(vid, set()).update(keys)
        self.pending[rank].append(rq)
        return line
    line = self.emit(rank, "put", Expect(0, what="put global op"), coll=1, **kw)
    self.fm.put(vid, idx, xv)
    return line


NBProg.split_even = _split_even
NBProg.put_values = _put_values


class C10(Check):
    id = "C10"
    rule = ("decomposition-independent programs (global puts/gets/nonblocking puts/redefinitions/syncs over fixed and record variables) "
            "rendered under K configurations drawn from: 1-4(8) processes, alignment hints {1,4,512,1000,4096}, nc_ibuf_size {1,64}, "
            "nc_in_place_swap, hash-table sizes {1,2,3}, header read chunk size, romio_no_indep_rw, intra-node aggregators 1..nprocs, safe "
            "mode, PNETCDF_HINTS vs MPI_Info, blocking vs nonblocking execution, typed vs flexible API with a derived buffer datatype.  Oracles: every rendering agrees with the data model; "
            "rank 0's read buffers and return codes are identical across configurations; the layout-independent logical dump of the final "
            "files is identical; variable offsets honour the alignment values ncmpi_inq_file_info reports. distinct = distinct configurations")
    assumptions = ["global puts are split among the ranks in contiguous blocks of one dimension, chosen per rendering"]

    def generate(self, tier, rng):
        nprog = int(os.environ.get("VERIF_N", 45)) if tier == "quick" else 600
        k = 5 if tier == "quick" else 10
        self.groups = {}
        for pi in range(nprog):
            prog = gen_global_program(rng)
            cfgs = [{"nprocs": 1, "hints": {}, "safe": False, "envhints": False, "nonblocking": False}]
            cfgs += [gen_config(rng, 4 if tier == "quick" else 8) for _ in range(k - 1)]
            for ci, cfg in enumerate(cfgs):
                name = "c10_%04d_%02d" % (pi, ci)
                self.groups.setdefault(pi, []).append(name)
                yield render(prog, cfg, name, seed=pi * 100 + ci)
        # stride-stress programs, appended (the programs above keep their random stream): baseline + configurations that all
        # use intra-node aggregation or nonblocking execution on 2-4(8) ranks
        import random
        srng = random.Random(rng.getrandbits(32))
        for pi in range(nprog, nprog + (10 if tier == "quick" else 120)):
            prog = gen_stride_program(srng)
            cfgs = [{"nprocs": 1, "hints": {}, "safe": False, "envhints": False, "nonblocking": False}]
            for j in range(3 if tier == "quick" else 5):
                cfg = gen_config(srng, 4 if tier == "quick" else 8)
                if cfg["nprocs"] == 1:
                    cfg["nprocs"] = srng.choice([2, 3, 4])
                if j != 1:
                    cfg["hints"]["nc_num_aggrs_per_node"] = srng.randint(1, cfg["nprocs"] - 1)
                else:
                    cfg["nonblocking"] = True
                cfgs.append(cfg)
            for ci, cfg in enumerate(cfgs):
                name = "c10_%04d_%02d" % (pi, ci)
                self.groups.setdefault(pi, []).append(name)
                yield render(prog, cfg, name, seed=pi * 100 + ci)

    def features(self, res):
        cfg = res.case.meta["cfg"]
        self.features_seen.add((cfg["nprocs"], tuple(sorted(cfg["hints"].items())), cfg["safe"], cfg["envhints"], cfg["nonblocking"]))
        return res.case.name

    def oracle(self, res):
        v = check_expectations(res, res.case.meta["expect"])
        m = res.case.meta
        snap = os.path.join(res.outdir, "snap.final")
        dump = None
        if os.path.exists(snap):
            b = open(snap, "rb").read()
            v += check_final_file(b, m["fm"], res)
            try:
                dump = cs.logical_dump(b)
                # never-written elements are outside the property (no-fill): blank them using the model's mask
                sc, _ = cs.decode_header(b)
                for dv, sv, mv in zip(dump["vars"], sc.vars, m["fm"].vars):
                    arr = cs.read_var(b, sc, sv)
                    mk = mv.mask[:arr.shape[0]] if mv.isrec else mv.mask
                    if mk.shape == arr.shape:
                        dv["data"] = np.where(mk, arr, 0).astype(cs.BE[sv.xtype]).tobytes().hex()
                dump = hashlib.sha1(json.dumps(dump, sort_keys=True).encode()).hexdigest()
            except cs.FormatError:
                pass
        ret0 = res.ret(0)
        def masked(l):
            ex = m["expect"].get((0, l))
            h = ret0[l].hexb()
            if ex is None or ex.mask is None or h is None or len(h) != len(ex.mask):
                return ret0[l].kv.get("hex")
            return bytes(np.where(ex.mask, np.frombuffer(h, dtype=np.uint8), 0).astype(np.uint8)).hex()
        gets = tuple((oi, ret0[l].kv.get("err"), masked(l)) for oi, l in m["getlines"] if l in ret0)
        errs = tuple((oi, ret0[l].kv.get("err")) for oi, l in m["errlines"] if l in ret0)
        self.results = getattr(self, "results", {})
        self.results[res.case.name] = (dump, gets, errs, res)
        # reported hints are the ones in force
        e = ret0.get(m["infoline"])
        if e is not None and e.kv.get("info"):
            info = dict(x.split(":", 1) for x in e.kv["info"].split(";") if ":" in x)
            self.count("info_reports_checked")
            want = m["cfg"]["hints"]
            for k in ("nc_header_align_size", "nc_record_align_size", "nc_ibuf_size", "nc_in_place_swap", "nc_hash_size_dim", "nc_num_aggrs_per_node"):
                if k in want and k in info and str(info[k]) != str(want[k]):
                    # a hint may legitimately be adjusted (e.g. alignment 1 -> 4); it must then be the value in force (checked below)
                    pass
            sweep = [x for x in res.logs[0] if x.kind == "S" and x.op == "var"]
            first = {}
            for x in sweep:
                first.setdefault(x.geti("v"), x)
            fm = m["fm"]
            nv0 = len(m["fm"].vars)
            fixed = [first[i] for i in sorted(first) if i < nv0 and not fm.vars[i].isrec]
            recs = [first[i] for i in sorted(first) if i < nv0 and fm.vars[i].isrec]
            try:
                ha, ra = int(info.get("nc_header_align_size", 0)), int(info.get("nc_record_align_size", 0))
            except ValueError:
                ha = ra = 0
            if fixed and ha > 0 and fixed[0].geti("offset") % ha:
                v.append(Violation("info|header_align", "nc_header_align_size reported as %d but the first fixed variable begins at %d" % (ha, fixed[0].geti("offset")), res))
            if recs and ra > 1 and recs[0].geti("offset") % ra:
                v.append(Violation("info|record_align", "nc_record_align_size reported as %d but the record section begins at %d" % (ra, recs[0].geti("offset")), res))
        return v

    def finish_batch(self, results):
        return []

    def finish(self, _):
        v = []
        res = getattr(self, "results", {})
        for pi, names in self.groups.items():
            have = [n for n in names if n in res]
            if len(have) < 2:
                continue
            ref = res[have[0]]
            for n in have[1:]:
                cur = res[n]
                self.count("configuration_pairs_compared")
                if ref[0] is not None and cur[0] is not None and ref[0] != cur[0]:
                    v.append(Violation("diff|logical-dump", "logical content of the final file differs between configuration %s and %s" % (ref[3].case.meta["cfg"], cur[3].case.meta["cfg"]), cur[3]))
                if ref[1] != cur[1]:
                    v.append(Violation("diff|read-buffers", "read results of rank 0 differ between configuration %s and %s" % (ref[3].case.meta["cfg"], cur[3].case.meta["cfg"]), cur[3]))
                if ref[2] != cur[2]:
                    v.append(Violation("diff|return-codes", "return codes differ between configuration %s and %s: %s vs %s" % (ref[3].case.meta["cfg"], cur[3].case.meta["cfg"], ref[2], cur[2]), cur[3]))
        return v
