"""C04 -- any specification-valid classic file is read back exactly."""
import os, copy
import numpy as np
from ..core import Check, Violation, Script, hx
from ..runner import Case
from ..metaprog import random_name, compare_sweep, nfc
from ..model import check_expectations, Expect, XT2MEM, MEM
from ..dataprog import types_for
from .. import cdfspec as cs

CHUNK = 262144


def rand_values(rng, xt, n):
    if xt == cs.NC_CHAR:
        return bytes(rng.randint(0, 255) for _ in range(n))
    dt = np.dtype(cs.NATIVE[xt])
    if dt.kind == "f":
        return np.array([rng.choice([0.0, -1.5, 3.25e7, rng.uniform(-1e6, 1e6)]) for _ in range(n)], dtype=dt)
    ii = np.iinfo(dt)
    return np.array([rng.choice([ii.min, ii.max, 0, rng.randint(int(ii.min), int(ii.max))]) for _ in range(n)], dtype=object).astype(dt)


def gen_file(rng, big=None):
    """returns (schema with begins, data dict, file bytes).  big: None or k (boundary shift index)"""
    version = rng.choice([1, 2, 5])
    tps = types_for(version)
    s = cs.Schema(version)
    names = set()

    def fresh():
        for _ in range(20):
            n = nfc(random_name(rng, 10))
            if n not in names and len(n) <= 256:
                names.add(n)
                return n
        n = b"n%d" % len(names)
        names.add(n)
        return n
    if rng.random() < 0.7:
        s.dims.append([fresh(), 0])
    for _ in range(rng.randint(0, 4)):
        s.dims.append([fresh(), rng.randint(1, 5)])
    dense = big is None and rng.random() < 0.12
    if dense:
        # the densest legal header: many dimensions with 1-4 character names (the smallest list elements the format
        # allows: 12 bytes in CDF-1/2, 20 in CDF-5) and next to nothing after them
        for _ in range(rng.randint(6, 80)):
            for _try in range(20):
                n = "".join(rng.choice("abcdefghijklmnopqrstuvwxyzABCDEFXYZ_") for _ in range(rng.randint(1, 4))).encode()
                if n not in names:
                    names.add(n)
                    s.dims.append([n, rng.randint(1, 3)])
                    break
    rng.shuffle(s.dims)
    ud = s.unlimdim()
    fixed = [i for i, d in enumerate(s.dims) if d[1] != 0]

    def atts(maxn):
        out, an = [], set()
        for _ in range(rng.randint(0, maxn)):
            n = nfc(random_name(rng, 8))
            if n in an:
                continue
            an.add(n)
            xt = rng.choice(tps)
            out.append(cs.Att(n, xt, rand_values(rng, xt, rng.choice([0, 0, 1, 2, 5, 33]))))
        return out
    s.gatts = atts(4) if not dense else atts(rng.choice([0, 0, 1]))
    nv = rng.randint(0, 6) if s.dims else rng.randint(0, 2)
    if dense:
        nv = rng.choice([0, 0, 1])
    for _ in range(nv):
        nd = rng.randint(0, min(3, len(s.dims)))
        ds = []
        if nd and ud >= 0 and rng.random() < 0.5:
            ds.append(ud)
            nd -= 1
        ds += [rng.choice(fixed) for _ in range(nd)] if fixed else []
        s.vars.append(cs.Var(fresh(), rng.choice(tps), ds, atts(3)))
    s.numrecs = rng.choice([0, 1, 2, 3, 7]) if s.recvars() else rng.choice([0, 0, 5])
    if big is not None:
        # one large leading attribute pushes the rest of the header across the read-chunk boundary; its length is
        # swept (in steps of 4) so that every kind of token straddles offset 262144 in some file
        base = cs.Schema(version, s.numrecs, s.dims, [cs.Att(b"pad", cs.NC_BYTE, np.zeros(0, "i1"))] + s.gatts, s.vars)
        hl0 = cs.header_len(base)
        tail = hl0 - len(cs.encode_header(cs.Schema(version, 0, s.dims, [cs.Att(b"pad", cs.NC_BYTE, np.zeros(0, "i1"))], [])))
        want_end_of_pad = CHUNK - 4 * big + (CHUNK if rng.random() < 0.2 else 0)
        prefix = len(cs.encode_header(cs.Schema(version, 0, s.dims, [cs.Att(b"pad", cs.NC_BYTE, np.zeros(0, "i1"))], []))) - (8 if version == 5 else 8) + 0
        L = max(4, want_end_of_pad - prefix)
        L -= L % 4
        if version != 1 and big % 3 != 2:
            # aim: an 8-byte field of the remaining header (a count, a length, a begin) starts 4 bytes before a chunk
            # boundary, so that the parser refills its buffer with 4 bytes of the field still unread (non-empty slack)
            for v in s.vars:
                v.begin = 0
            probe = cs.Schema(version, s.numrecs, s.dims, [cs.Att(b"pad", cs.NC_BYTE, np.zeros(4, "i1"))] + s.gatts, s.vars)
            f8 = [o for (o, n, what) in cs.decode_tokens(cs.encode_header(probe)) if n == 8 and o >= prefix + 4 and what not in ("name", "name padding", "att values", "att padding")]
            if f8:
                f = f8[(big // 3) % len(f8)] if big < 30 else rng.choice(f8)
                L = 4 + (CHUNK if big % 5 else 2 * CHUNK) - 4 - f
                assert L > 0 and L % 4 == 0
        s.gatts = [cs.Att(b"pad", cs.NC_BYTE, rand_values(rng, cs.NC_BYTE, L))] + s.gatts
    # layout a writer other than PnetCDF could have produced
    g = {i: 4 * rng.choice([0, 0, 1, 3, 64]) for i in range(len(s.vars))}
    cs.assign_begins(s, gap=lambda i: g[i], first_gap=4 * rng.choice([0, 0, 2, 25, 300]), rec_gap=4 * rng.choice([0, 0, 1, 10]))
    for v in s.vars:
        r = rng.random()
        if r < 0.2:
            v.vsize = rng.choice([0, 4, 12345678])            # stale vsize: readers must recompute it
        elif r < 0.3 and version < 5:
            v.vsize = 0xFFFFFFFF
        else:
            v.vsize = None
    # stale vsize values that LOOK plausible: 4-aligned and a little (or a lot) larger than the true size, aimed at
    # record variables (a reader that trusted them would compute a wrong record size).  Private generator: main stream unchanged.
    import random, zlib
    prng = random.Random(zlib.crc32(repr([(v.name, v.begin, v.xtype) for v in s.vars]).encode()))
    for v in s.vars:
        if prng.random() < (0.35 if s.is_rec(v) else 0.1):
            true = s.vsize_spec(v)
            cand = true + 4 * prng.choice([1, 1, 2, 13]) if prng.random() < 0.7 else 2 * true + 4
            if cand < 0xFFFFFFFF or version == 5:
                v.vsize = cand
    data = {}
    for i, v in enumerate(s.vars):
        shp = ([s.numrecs] if s.is_rec(v) else []) + s.shape(v)
        n = int(np.prod(shp)) if shp else 1
        vals = rand_values(rng, v.xtype, n)
        arr = (np.frombuffer(vals, dtype="u1") if v.xtype == cs.NC_CHAR else np.asarray(vals)).reshape(shp if shp else ())
        data[i] = arr
    b = cs.build_file(s, data, filler=rng.choice([0, 0xEE]))
    for v in s.vars:
        if v.vsize is None:
            v.vsize = s.vsize_spec(v)
    return s, data, b


def gen_case(rng, i, nprocs, big=None):
    s, data, b = gen_file(rng, big)
    sc = Script()
    expect = {}
    hints = []
    if rng.random() < 0.5:
        hints.append("nc_header_read_chunk_size:%d" % rng.choice([1, 16, 100, 1024, 65536]))
    for k in ("nc_hash_size_dim", "nc_hash_size_var", "nc_hash_size_gattr", "nc_hash_size_vattr"):
        if rng.random() < 0.3:
            hints.append("%s:%d" % (k, rng.choice([1, 2, 5])))
    if rng.random() < 0.2:
        hints.append("romio_no_indep_rw:true")
    line = sc.add("*", "open", f=0, path="s:@OUT@/in.nc", omode=0, info=";".join(hints) or "-")
    for r in range(nprocs):
        expect[(r, line)] = Expect(0, what="open of a specification-valid file")
    sweepline = sc.add("*", "sweep", f=0)
    line = sc.add("*", "inq", f=0, what="numrecs")
    if s.unlimdim() >= 0:
        for r in range(nprocs):
            expect[(r, line)] = Expect(0, kv={"val": s.numrecs}, what="record count")
    nel = 0
    for vid, v in enumerate(s.vars):
        arr = data[vid]
        mt = XT2MEM[v.xtype]
        raw = np.frombuffer(arr.astype(MEM[mt]).tobytes(), dtype=np.uint8)
        if arr.size == 0:
            continue
        nel += arr.size
        if arr.ndim == 0 or rng.random() < 0.6:
            ex = Expect(0, buf=raw, mask=np.ones(raw.size, bool), what="get_var of variable %d" % vid)
            line = sc.add("*", "get", f=0, v=vid, form="var", mt=mt, coll=1, nbytes=raw.size)
            for r in range(nprocs):
                expect[(r, line)] = ex
        else:
            # each rank reads a different slab along the first dimension
            L = arr.shape[0]
            for r in range(nprocs):
                a = rng.randint(0, L - 1)
                c = rng.randint(1, L - a)
                sub = arr[a:a + c]
                subraw = np.frombuffer(sub.astype(MEM[mt]).tobytes(), dtype=np.uint8)
                st = [a] + [0] * (arr.ndim - 1)
                ct = [c] + list(arr.shape[1:])
                line = sc.add(r, "get", f=0, v=vid, form="vara", mt=mt, coll=1, start=",".join(map(str, st)), count=",".join(map(str, ct)), nbytes=subraw.size)
                expect[(r, line)] = Expect(0, buf=subraw, mask=np.ones(subraw.size, bool), what="get_vara of variable %d" % vid)
    line = sc.add("*", "close", f=0)
    for r in range(nprocs):
        expect[(r, line)] = Expect(0, what="close")
    c = Case("c04_%05d" % i, nprocs, sc.lines, meta={"expect": expect, "schema": s, "sweepline": sweepline, "nel": nel,
                                                     "feat": {(s.version, len(b) > CHUNK, big is not None, nprocs, bool(hints))}, "hlen": cs.header_len(s)})
    c.files = {"in.nc": b}
    return c


class C04(Check):
    id = "C04"
    rule = ("files produced by an independent encoder written from the format specification: random schemas in CDF-1/2/5 with layouts PnetCDF "
            "never writes (arbitrary 4-aligned gaps between variables and before the record section, stale or saturated vsize fields, "
            "zero-length attributes, garbage between header and data, dimensions in any order, any numrecs) and headers from the minimum "
            "to beyond 1-2 read chunks, with the length of a leading attribute swept in steps of 4 so that every token kind straddles "
            "offset 262144; each file is opened on 1-4 ranks under random hint sets; open must succeed, a full sweep (by id and by name, "
            "attribute values) and reads of every variable (whole and per-rank slabs) must return exactly the encoded content. "
            "distinct = (version, multi-chunk header, boundary sweep, nprocs, hints) tuples x files")

    def generate(self, tier, rng):
        n = int(os.environ.get("VERIF_N", 260)) if tier == "quick" else 4000
        nbig = 64 if tier == "quick" else 420
        for i in range(n):
            yield gen_case(rng, i, rng.choice([1, 2, 3, 4]))
        for k in range(nbig):
            yield gen_case(rng, n + k, rng.choice([1, 2, 2, 3]), big=k % 70)

    def features(self, res):
        for f in res.case.meta["feat"]:
            self.features_seen.add(f + (res.case.name if len(self.features_seen) < 50 else "",))
        return res.case.name

    def oracle(self, res):
        m = res.case.meta
        v = check_expectations(res, m["expect"])
        self.count("elements_compared", m["nel"])
        self.count("header_bytes_parsed", m["hlen"])
        for rank in range(res.case.nprocs):
            v += compare_sweep(res, rank, m["sweepline"], m["schema"], what="inquiries on a specification-valid file")
            for e in res.logs[rank]:
                if e.kind == "S" and e.line == m["sweepline"] and e.op == "var" and e.geti("v") < len(m["schema"].vars):
                    if e.geti("offset") != m["schema"].vars[e.geti("v")].begin:
                        v.append(Violation("sweep|var-offset", "inq_varoffset(%d) = %s, begin in the file is %d" % (e.geti("v"), e.kv.get("offset"), m["schema"].vars[e.geti("v")].begin), res))
                if e.kind == "S" and e.line == m["sweepline"] and e.op == "file" and e.geti("hsize") != m["hlen"]:
                    v.append(Violation("sweep|header-size", "inq_header_size %s, header is %d bytes" % (e.kv.get("hsize"), m["hlen"]), res))
        return v
