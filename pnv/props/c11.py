"""C11 -- I/O failures are never silently dropped (fault enumeration through the PMPI shim)."""
import os
from ..core import Check, Violation, Script, hx
from ..runner import Case, run_cases

I4 = lambda *xs: "hex:" + b"".join(int(x).to_bytes(4, "little", signed=True) for x in xs).hex()


class P:
    """tiny program builder: every step is followed by a faultsync on all ranks"""

    def __init__(self, name, nprocs=2, hints=None, env=None):
        self.name, self.np, self.s, self.env = name, nprocs, Script(), env or {}
        self.hints = hints or "-"
        self.path = "s:@OUT@/f.nc"
        self.s.add("*", "fault", ord="@ORD@", class_="@CLASS@")       # replaced per run (rank-specific line follows)

    def step(self, ranks, op, **kw):
        self.s.add(ranks, op, **kw)

    def sync(self):
        self.s.add("*", "faultsync")

    def all(self, op, **kw):
        self.s.add("*", op, f=0, **kw)
        self.sync()

    def create(self, cmode=0):
        self.s.add("*", "create", f=0, path=self.path, cmode=cmode, info=self.hints)
        self.sync()

    def open(self, omode=1):
        self.s.add("*", "open", f=0, path=self.path, omode=omode, info=self.hints)
        self.sync()

    def schema(self, fill=False, nrecvars=2):
        s = self.s
        s.add("*", "def_dim", f=0, name="s:t", len=0)
        s.add("*", "def_dim", f=0, name="s:x", len=8)
        s.add("*", "def_var", f=0, name="s:fix", xtype=4, dimids="1", ndims=1)
        s.add("*", "def_var", f=0, name="s:r1", xtype=4, dimids="0,1", ndims=2)
        if nrecvars > 1:
            s.add("*", "def_var", f=0, name="s:r2", xtype=5, dimids="0,1", ndims=2)
        s.add("*", "put_att", f=0, v=-1, name="s:title", mt="text", n=5, data="hex:68656c6c6f")
        if fill:
            s.add("*", "set_fill", f=0, mode=0)


def programs():
    out = []
    # 1. header write at enddef, close
    p = P("enddef_header"); p.create(); p.schema(); p.all("enddef"); p.all("close"); out.append(p)
    # 2. fill at enddef (all ranks write their share)
    p = P("enddef_fill"); p.create(); p.schema(fill=True); p.all("enddef"); p.all("close"); out.append(p)
    # 3. collective put (data + numrecs update) and get, fixed and record
    p = P("coll_putget"); p.create(); p.schema(); p.all("enddef")
    for r in range(2):
        p.step(r, "put", f=0, v=1, form="vara", mt="int", coll=1, start="%d,0" % r, count="1,8", data=I4(*range(8)))
    p.sync()
    for r in range(2):
        p.step(r, "put", f=0, v=0, form="vara", mt="int", coll=1, start="%d" % (4 * r), count="4", data=I4(1, 2, 3, 4))
    p.sync()
    for r in range(2):
        p.step(r, "get", f=0, v=1, form="vara", mt="int", coll=1, start="%d,0" % r, count="1,8", nbytes=32)
    p.sync()
    for r in range(2):
        p.step(r, "put", f=0, v=1, form="vars", mt="int", coll=1, start="%d,0" % (2 + r), count="1,4", stride="1,2", data=I4(1, 2, 3, 4))
    p.sync()
    p.all("close"); out.append(p)
    # 4. independent put/get, sync_numrecs, end_indep, sync
    p = P("indep"); p.create(); p.schema(); p.all("enddef"); p.all("begin_indep")
    for r in range(2):
        p.step(r, "put", f=0, v=1, form="vara", mt="int", coll=0, start="%d,0" % (r + 1), count="1,8", data=I4(*range(8)))
    p.sync()
    p.all("sync_numrecs")
    for r in range(2):
        p.step(r, "get", f=0, v=1, form="vara", mt="int", coll=0, start="0,0", count="1,8", nbytes=32)
    p.sync()
    for r in range(2):
        p.step(r, "put", f=0, v=2, form="vara", mt="float", coll=0, start="%d,0" % (r + 3), count="1,8", data="hex:" + "0000803f" * 8)
    p.sync()
    p.all("sync")
    for r in range(2):
        p.step(r, "put", f=0, v=1, form="var1", mt="int", coll=0, start="%d,1" % (r + 6), data=I4(7))
    p.sync()
    p.all("end_indep"); p.all("close"); out.append(p)
    # 5. nonblocking: wait_all (puts extending records, gets), independent wait, flush at close
    p = P("nonblocking"); p.create(); p.schema(); p.all("enddef")
    for r in range(2):
        p.step(r, "iput", f=0, v=1, form="vara", mt="int", start="%d,0" % r, count="1,8", data=I4(*range(8)), buf=1, req=1)
        p.step(r, "iput", f=0, v=0, form="vara", mt="int", start="%d" % (4 * r), count="4", data=I4(1, 2, 3, 4), buf=2, req=2)
    p.all("wait", coll=1, reqs="1,2")
    for r in range(2):
        p.step(r, "iget", f=0, v=1, form="vara", mt="int", start="%d,0" % r, count="1,8", nbytes=32, buf=3, req=3)
        p.step(r, "iput", f=0, v=2, form="vara", mt="float", start="%d,0" % (r + 2), count="1,8", data="hex:" + "0000803f" * 8, buf=4, req=4)
    p.all("wait", coll=1, reqs="all")
    p.all("begin_indep")
    for r in range(2):
        p.step(r, "iput", f=0, v=1, form="vara", mt="int", start="%d,0" % (r + 4), count="1,8", data=I4(*range(8)), buf=5, req=5)
    for r in range(2):
        p.step(r, "wait", f=0, coll=0, reqs="5")
    p.sync()
    p.all("end_indep")
    p.all("attach", size=4096)
    for r in range(2):
        p.step(r, "bput", f=0, v=1, form="varn", mt="int", num=2, starts="%d,0;%d,4" % (r + 8, r + 8), counts="1,4;1,4", data=I4(*range(8)), buf=6, req=6)
    p.all("wait", coll=1, reqs="6")
    p.all("detach")
    p.all("close"); out.append(p)
    # 6. redefinition with data movement (header growth beyond the extent, new record variable), fill of new variables
    for nm, fill in (("redef_move", False), ("redef_move_fill", True)):
        p = P(nm); p.create(); p.schema(); p.all("_enddef", hmin=0, valign=4, vmin=0, ralign=4)
        for r in range(2):
            p.step(r, "put", f=0, v=1, form="vara", mt="int", coll=1, start="%d,0" % (2 * r), count="2,8", data=I4(*range(16)))
        p.sync()
        for r in range(2):
            p.step(r, "put", f=0, v=0, form="vara", mt="int", coll=1, start="%d" % (4 * r), count="4", data=I4(1, 2, 3, 4))
        p.sync()
        p.all("redef")
        if fill:
            p.step("*", "set_fill", f=0, mode=0)
        p.step("*", "put_att", f=0, v=-1, name="s:big", mt="text", n=600, data="rep:61:600")
        p.step("*", "def_var", f=0, name="s:newfix", xtype=6, dimids="1", ndims=1)
        p.step("*", "def_var", f=0, name="s:newrec", xtype=3, dimids="0,1", ndims=2)
        p.all("enddef")
        p.all("close"); out.append(p)
    # 7. data-mode metadata updates rewrite the header
    p = P("datamode_meta"); p.create(); p.schema(); p.all("enddef")
    p.all("rename_var", v=0, name="s:fiy")
    p.all("put_att", v=-1, name="s:title", mt="text", n=5, data="hex:48454c4c4f")
    p.all("rename_att", v=-1, name="s:title", newname="s:titl")
    p.all("rename_dim", d=1, name="s:y")
    p.all("close"); out.append(p)
    # 8. fill_var_rec
    p = P("fill_var_rec"); p.create(); p.schema()
    p.step("*", "def_var_fill", f=0, v=1, nofill=0, fill="-")
    p.all("enddef")
    p.all("fill_var_rec", v=1, rec=0)
    p.all("fill_var_rec", v=1, rec=2)
    p.all("close"); out.append(p)
    # 9. open an existing file (header read), read, close
    p = P("open_read"); p.create(); p.schema(); p.all("enddef")
    for r in range(2):
        p.step(r, "put", f=0, v=1, form="vara", mt="int", coll=1, start="%d,0" % r, count="1,8", data=I4(*range(8)))
    p.sync()
    p.all("close"); p.open(omode=0)
    for r in range(2):
        p.step(r, "get", f=0, v=1, form="vara", mt="int", coll=1, start="%d,0" % r, count="1,8", nbytes=32)
    p.sync()
    p.all("close"); out.append(p)
    # 10. intra-node aggregation
    p = P("aggregation", hints="nc_num_aggrs_per_node:1"); p.create(); p.schema(); p.all("enddef")
    for r in range(2):
        p.step(r, "put", f=0, v=1, form="vara", mt="int", coll=1, start="%d,0" % r, count="1,8", data=I4(*range(8)))
    p.sync()
    for r in range(2):
        p.step(r, "iput", f=0, v=1, form="vara", mt="int", start="%d,0" % (r + 2), count="1,8", data=I4(*range(8)), buf=1, req=1)
    p.all("wait", coll=1, reqs="all")
    p.all("close"); out.append(p)
    # 11. burst buffer: flush at wait / close
    p = P("burst_buffer", hints="nc_burst_buf:enable;nc_burst_buf_dirname:@OUT@;nc_burst_buf_overwrite:enable"); p.create(); p.schema(); p.all("enddef")
    for r in range(2):
        p.step(r, "put", f=0, v=1, form="vara", mt="int", coll=1, start="%d,0" % r, count="1,8", data=I4(*range(8)))
    p.sync()
    p.all("flush")
    for r in range(2):
        p.step(r, "iput", f=0, v=1, form="vara", mt="int", start="%d,0" % (r + 2), count="1,8", data=I4(*range(8)), buf=1, req=1)
    p.all("wait", coll=1, reqs="all")
    for r in range(2):
        p.step(r, "put", f=0, v=0, form="vara", mt="int", coll=1, start="%d" % (4 * r), count="4", data=I4(1, 2, 3, 4))
    p.sync()
    p.all("close"); out.append(p)
    # 12. vard
    p = P("vard"); p.create(); p.schema(); p.all("enddef")
    p.step("*", "type", t=1, kind="subarray", base="int", sizes="8", subsizes="4", starts="0")
    p.step("*", "type", t=2, kind="subarray", base="int", sizes="8", subsizes="4", starts="4")
    for r in range(2):
        p.step(r, "put", f=0, v=0, form="vard", mt="flex", coll=1, ftype="t%d" % (r + 1), bufcount=4, buftype="int", data=I4(1, 2, 3, 4))
    p.sync()
    for r in range(2):
        p.step(r, "get", f=0, v=0, form="vard", mt="flex", coll=1, ftype="t%d" % (r + 1), bufcount=4, buftype="int", nbytes=16)
    p.sync()
    p.all("close"); out.append(p)
    return out


def make_case(prog, name, rank, ordn, cls):
    lines = list(prog.s.lines)
    if rank is None:
        lines[0] = "* fault ord=-1"
    else:
        lines[0] = "%d fault ord=%d class=%s" % (rank, ordn, cls)
    return Case(name, prog.np, lines, env=prog.env, timeout=60, meta={"prog": prog.name, "rank": rank, "ord": ordn, "cls": cls})


class C11(Check):
    id = "C11"
    level = "fault_enumeration"
    exhaustive = True
    rule = ("12 programs covering every anchored site (header write at enddef, fill at enddef and fill_var_rec, collective and independent "
            "put/get, numrecs updates in collective put / sync_numrecs / sync / end_indep / close, wait and wait_all flushes, redefinition "
            "data movement with and without fill, data-mode rename/put_att header rewrite, header read at open, intra-node aggregation, "
            "burst-buffer flush, vard); a fault-free run lists every MPI-IO data-transfer call per rank; then EVERY (rank, call ordinal, "
            "MPI error class) is run once with that call failed by the PMPI shim (a failed collective still enters the collective with a "
            "zero-length request).  Oracle: the enclosing API call (or wait) returns an error on the faulted rank and every rank returns "
            "from it.  distinct = distinct (program, rank, API op, MPI-IO call kind, class) with a proven INJECTED event")
    assumptions = ["what an application does after the failed call is not part of the property: the run ends at the next step boundary",
                   "short reads/writes (success with fewer bytes) are not modelled"]

    def generate(self, tier, rng):
        return []

    def run(self, tier, seed, replay=None):
        # two-phase: enumerate positions from fault-free runs, then inject
        self._tier = tier
        return Check.run(self, tier, seed, replay)

    def generate(self, tier, rng):
        progs = programs()
        base = [make_case(p, "c11_base_%s" % p.name, None, -1, "IO") for p in progs]
        res = run_cases(base, self.bld, self.workdir)
        classes = ["IO", "NO_SPACE"] if tier == "quick" else ["IO", "NO_SPACE", "QUOTA", "ACCESS", "READ_ONLY", "FILE", "OTHER", "BAD_FILE"]
        cases = []
        self.positions = 0
        for p, r0 in zip(progs, res):
            if not r0.finished() or r0.san:
                raise Exception("fault-free run of %s failed: rc=%s %s %s" % (p.name, r0.rc, r0.stderr[-500:], r0.san[:1]))
            for e in r0.logs[0]:
                if e.kind == "R" and e.op not in ("fault", "faultsync", "type", "balance") and e.kv.get("err") not in (None, "0"):
                    raise Exception("fault-free run of %s: %s" % (p.name, e.raw[:200]))
            for rank in range(p.np):
                ords = sorted(set(e.geti("ord") for e in r0.logs[rank] if e.kind == "M" and "ord" in e.kv and e.op != "INJECTED"))
                for o in ords:
                    self.positions += 1
                    for c in classes:
                        cases.append(make_case(p, "c11_%s_r%d_o%d_%s" % (p.name, rank, o, c), rank, o, c))
        if tier == "quick":
            pass
        self.count("fault_positions", self.positions)
        return cases

    def features(self, res):
        m = res.case.meta
        inj = [(e.line, e.kv) for e in res.logs[m["rank"]] if e.kind == "M" and e.op == "INJECTED"] if m["rank"] is not None and len(res.logs) > m["rank"] else []
        if not inj:
            return ("nofire",)
        line = inj[0][0]
        op = next((e.op for e in res.logs[m["rank"]] if e.kind == "C" and e.line == line), "?")
        what = next((e.raw.split(" ")[3] for e in res.logs[m["rank"]] if e.kind == "M" and e.op == "INJECTED"), "?")
        return (m["prog"], m["rank"], op, what, m["cls"])

    def oracle(self, res):
        m = res.case.meta
        if m["rank"] is None:
            return []
        v = []
        evs = res.logs[m["rank"]]
        inj = [e for e in evs if e.kind == "M" and e.op == "INJECTED"]
        if not inj:
            self.inconclusive.append("%s: fault at rank %d ordinal %d never fired" % (m["prog"], m["rank"], m["ord"]))
            return v
        self.count("faults_fired")
        line = inj[0].line
        what = inj[0].raw.split(" ")[3]
        cev = next((e for e in evs if e.kind == "C" and e.line == line), None)
        rev = next((e for e in evs if e.kind == "R" and e.line == line), None)
        op = cev.op if cev else "?"
        if rev is None:
            return v        # did not return: reported as hang/abort by the generic monitor
        err = rev.geti("err", 0)
        st = rev.ints("st") if "st" in rev.kv else []
        api = rev.kv.get("api", op)
        if err == 0 and not any(x != 0 for x in st):
            v.append(Violation("dropped|%s|%s|%s|%s" % (m["prog"], op if op != "put" and op != "get" else api, what, "rank0" if m["rank"] == 0 else "rankN"),
                               "MPI error class %s injected into %s (ordinal %d) issued by %s at line %d on rank %d: the call returned NC_NOERR" % (
                                   m["cls"], what, m["ord"], api, line, m["rank"]), res))
        return v

    def hang_site(self, res, oc):
        m = res.case.meta
        stuck = sorted(set(e.op for e in oc if e))
        return "%s|%s" % (m.get("prog"), "+".join(stuck))
