"""C03 -- files written conform to the classic CDF-1/2/5 format specification."""
import os, copy
import numpy as np
from ..core import Check, Violation, hx
from ..runner import Case
from ..metaprog import MetaProg, random_name, compare_header, nfc
from ..model import check_expectations, Expect, XT2MEM, MEM, safe_range
from ..dataprog import types_for
from .. import cdfspec as cs

PAT = 0xC3


class P3(MetaProg):
    def init3(self):
        self.points = []          # (sweep line, snapshot tag, model snapshot, data snapshot, numrecs, layout facts)
        self.data = {}            # varid -> np array (full current content) of written variables
        self.numrecs = 0
        self.first_enddef = None  # args in force at the first enddef
        self.cur_args = {}

    def point(self, what):
        """the file is promised to be up to date here: sweep + raw snapshot"""
        self.emit("*", "barrier")
        line = self.emit("*", "sweep", None, f=self.f)
        self.nsnap += 1
        tag = "p%d" % self.nsnap
        self.emit(0, "snapshot", None, path="s:" + self.path, tag=tag)
        self.emit("*", "barrier")
        m = copy.deepcopy(self.m)
        m.numrecs = self.numrecs
        self.points.append({"line": line, "tag": tag, "model": m, "data": {k: v.copy() for k, v in self.data.items()}, "what": what,
                            "args": dict(self.cur_args), "fresh": self.fresh})

    def touch_noncontig(self):
        """every rank reads a strided / single-column selection: the library is left with a non-contiguous file view on its
        collective file handle (it does not reset the view after an access), which the next header write must not use"""
        cands = []
        for vid, v in enumerate(self.m.vars):
            full = ([self.numrecs] if self.m.is_rec(v) else []) + self.m.shape(v)
            if not full or min(full) == 0 or int(np.prod(full)) > 4000:
                continue
            if full[-1] >= 3 or (len(full) >= 2 and full[-1] == 2 and full[-2] >= 2):
                cands.append((vid, full))
        if not cands:
            return
        vid, full = self.rng.choice(cands)
        v = self.m.vars[vid]
        count, stride = list(full), [1] * len(full)
        if full[-1] >= 3:
            stride[-1] = 2
            count[-1] = (full[-1] + 1) // 2
        else:
            count[-1] = 1
        mt = "text" if v.xtype == cs.NC_CHAR else XT2MEM[v.xtype]
        n = int(np.prod(count))
        self.emit("*", "get", Expect(0), f=self.f, v=vid, form="vars", mt=mt, coll=1, start=",".join("0" for _ in full), count=",".join(map(str, count)),
                  stride=",".join(map(str, stride)), nbytes=n * np.dtype(MEM[mt]).itemsize)
        self.feat.add(("noncontig-view",))

    def write_var(self, vid):
        """every rank writes the whole variable with identical values (deterministic)"""
        v = self.m.vars[vid]
        isrec = self.m.is_rec(v)
        shape = self.m.shape(v)
        nrec = self.rng.choice([1, 2, 3]) if isrec else None
        full = ([nrec] if isrec else []) + shape
        n = int(np.prod(full)) if full else 1
        if n == 0 or n > 4000:
            return
        if v.xtype == cs.NC_CHAR:
            vals = np.array([self.rng.randint(1, 255) for _ in range(n)], dtype="u1")
            mt = "text"
        else:
            mt = XT2MEM[v.xtype]
            lo, hi = safe_range(mt, v.xtype)
            vals = np.array([self.rng.randint(lo, hi) for _ in range(n)], dtype=object).astype(cs.NATIVE[v.xtype])
        kw = dict(f=self.f, v=vid, mt=mt, coll=1, data="hex:" + vals.astype(MEM[mt]).tobytes().hex())
        if len(full) == 0:
            self.emit("*", "put", Expect(0), form="var", **kw)
        else:
            self.emit("*", "put", Expect(0), form="vara", start=",".join("0" for _ in full), count=",".join(map(str, full)), **kw)
        arr = vals.reshape(full) if full else vals.reshape(())
        if isrec:
            old = self.data.get(vid)
            self.numrecs = max(self.numrecs, nrec)
            if old is not None and old.shape[0] > nrec:
                arr = np.concatenate([arr, old[nrec:]])
        self.data[vid] = arr


def gen_case(rng, i, nprocs):
    version = rng.choice([1, 2, 5])
    hints = {}
    stress = (i % 5 == 4)      # layout stress: tight header, free space before the record section, records present at redefinition
    if stress:
        hints["nc_header_align_size"] = 4
        hints["nc_record_align_size"] = rng.choice([512, 1000, 4096])
    elif rng.random() < 0.5:
        hints["nc_header_align_size"] = rng.choice([1, 4, 8, 512, 1000, 4096])
    if not stress and rng.random() < 0.4:
        hints["nc_record_align_size"] = rng.choice([1, 4, 6, 8, 512, 1000, 1022])
    if rng.random() < 0.3:
        hints["nc_var_align_size"] = rng.choice([1, 4, 512])
    p = P3(rng, nprocs, "@OUT@/c03.nc", version, hints=";".join("%s:%s" % kv for kv in hints.items()) or None)
    p.init3()
    p.fresh = True
    clobber = rng.random() < 0.35
    if clobber:
        size = rng.choice([3000, 20000, 70000])
        if rng.random() < 0.4:
            p.emit(0, "prefill", None, path="s:@OUT@/real.nc", size=size, byte=PAT, symlink="s:@OUT@/c03.nc")
        else:
            p.emit(0, "prefill", None, path="s:@OUT@/c03.nc", size=size, byte=PAT)
        p.emit("*", "barrier")
    p.create()
    tps = types_for(version)
    # schema
    ndims = rng.randint(0, 4)
    if stress:
        p.def_dim(b"time", 0)
        p.def_dim(b"sx", rng.randint(2, 5))
        p.def_var(b"sfix", rng.choice(tps), [1])
        p.def_var(b"srec", rng.choice(tps), [0, 1])
    elif rng.random() < 0.7:
        p.def_dim(b"time" if rng.random() < 0.5 else random_name(rng), 0)
    for _ in range(ndims):
        nm = random_name(rng)
        if p.dim_id(nm) < 0:
            p.def_dim(nm, rng.randint(1, 6))
    for _ in range(rng.randint(0, 6)):
        nm = random_name(rng)
        if p.var_id(nm) >= 0 or not p.m.dims and rng.random() < 0.5:
            continue
        nd = rng.randint(0, min(3, len(p.m.dims)))
        fixed = [d for d in range(len(p.m.dims)) if p.m.dims[d][1] != 0]
        ud = p.m.unlimdim()
        ds = []
        if nd and ud >= 0 and rng.random() < 0.45:
            ds.append(ud)
            nd -= 1
        ds += [rng.choice(fixed) for _ in range(nd)] if fixed else []
        p.def_var(nm, rng.choice(tps), ds)
    for _ in range(rng.randint(0, 8)):
        vid = rng.choice([-1] + list(range(len(p.m.vars))))
        nm = random_name(rng)
        p.put_att(vid, nm, rng.choice(tps), rng.choice([0, 0, 1, 2, 3, 7, 64, 1000 if rng.random() < 0.1 else 5]))
    args = None
    if rng.random() < 0.5:
        args = dict(hmin=rng.choice([0, 0, 10, 300]), valign=rng.choice([0, 1, 4, 6, 64, 512, 1000]), vmin=rng.choice([0, 0, 12, 500]), ralign=rng.choice([0, 1, 3, 4, 6, 64, 1000, 1022]))
        p.emit("*", "_enddef", Expect(0), f=p.f, **args)
    else:
        p.emit("*", "enddef", Expect(0), f=p.f)
    p.defmode = False
    p.cur_args = {"hints": hints, "args": args}
    p.point("after the first enddef")
    if stress:
        for vid in range(len(p.m.vars)):
            p.write_var(vid)
    for step in range(rng.randint(1, 6)):
        r = rng.random()
        if stress and step == 0:
            r = 0.9
        if r < 0.4 and p.m.vars:
            p.write_var(rng.randrange(len(p.m.vars)))
            if rng.random() < 0.6:
                p.point("after a collective write")
        elif r < 0.55:
            p.emit("*", "sync", Expect(0), f=p.f)
            p.point("after sync")
        elif r < 0.75:
            # data-mode metadata update
            k = rng.random()
            if k < 0.4 and p.m.vars:
                vid = rng.randrange(len(p.m.vars))
                cur = p.m.vars[vid].name
                p.rename("var", vid, (b"z" * max(1, len(cur) - rng.randint(0, 2))) if p.var_id(b"z" * max(1, len(cur) - 1)) < 0 else cur.decode("utf-8")[:1].encode("utf-8") + b"q")
            elif k < 0.7 and (p.m.gatts):
                a = rng.choice(p.m.gatts)
                p.put_att(-1, a.name, a.xtype, max(0, a.nelems - rng.randint(0, 1)))
            elif p.m.dims:
                d = rng.randrange(len(p.m.dims))
                cur = p.m.dims[d][0]
                nn = b"y" * max(1, len(cur) - rng.randint(0, 1))
                if p.dim_id(nn) < 0:
                    p.rename("dim", d, nn)
            p.point("after a data-mode metadata update")
        else:
            if rng.random() < 0.5:
                p.touch_noncontig()
            p.redef()
            p.fresh = False
            for _ in range(rng.randint(0, 3)):
                p.put_att(rng.choice([-1] + list(range(len(p.m.vars)))), random_name(rng), rng.choice(tps), rng.choice([1, 3, 40, 900]))
            if (stress or rng.random() < 0.6) and p.m.dims:
                fixed = [d for d in range(len(p.m.dims)) if p.m.dims[d][1] != 0]
                ud = p.m.unlimdim()
                ds = ([ud] if ud >= 0 and (stress or rng.random() < 0.5) else []) + ([rng.choice(fixed)] if fixed and rng.random() < 0.7 else [])
                nm = random_name(rng)
                if p.var_id(nm) < 0:
                    p.def_var(nm, rng.choice(tps), ds)
            if rng.random() < 0.4:
                args = dict(hmin=rng.choice([0, 16, 200]), valign=rng.choice([0, 4, 64, 512]), vmin=rng.choice([0, 8, 100]), ralign=rng.choice([0, 4, 6, 64, 510, 512]))
                p.emit("*", "_enddef", Expect(0), f=p.f, **args)
                p.cur_args = {"hints": hints, "args": args}
            else:
                p.emit("*", "enddef", Expect(0), f=p.f)
                p.cur_args = {"hints": hints, "args": None}
            p.defmode = False
            p.point("after a redefinition")
    p.emit("*", "close", Expect(0), f=p.f)
    p.fresh = p.fresh
    # after close: snapshot only (no sweep possible)
    p.emit("*", "barrier")
    p.nsnap += 1
    tag = "p%d" % p.nsnap
    p.emit(0, "snapshot", None, path="s:@OUT@/c03.nc", tag=tag)
    m = copy.deepcopy(p.m)
    m.numrecs = p.numrecs
    p.points.append({"line": None, "tag": tag, "model": m, "data": {k: v.copy() for k, v in p.data.items()}, "what": "after close", "args": dict(p.cur_args), "fresh": p.fresh, "final": True})
    return Case("c03_%05d" % i, nprocs, p.s.lines, meta={"expect": p.expect, "points": p.points, "feat": p.feat | {("clobber", clobber), ("ver", version)}, "clobber": clobber})


class C03(Check):
    id = "C03"
    rule = ("random schemas (names incl. multi-byte UTF-8, specials, 200-256 bytes; attributes of every type, length 0..1000; any number and "
            "order of dimensions and fixed/record variables), alignment hints and ncmpi__enddef arguments, whole-variable writes, syncs, "
            "data-mode rename/put_att, redefinitions, 1-4 ranks, optional clobbered predecessor (regular file or symlink target, filled "
            "with 0xC3).  At every point where the library promises an up-to-date file (after enddef, collective write, sync, data-mode "
            "update, redefinition, close) the raw file is decoded by the specification decoder and compared with the model (metadata, "
            "numrecs, data), layout invariants are checked (order, 4-byte alignment, no overlap, minfree honoured, first layout aligned as "
            "requested, recsize rule, vsize rule) and ncmpi_inq_header_size/extent/varoffset/recsize are compared with the bytes on disk. "
            "distinct = (operation, mode, outcome) tuples")

    def generate(self, tier, rng):
        n = int(os.environ.get("VERIF_N", 220)) if tier == "quick" else 4000
        for i in range(n):
            yield gen_case(rng, i, rng.choice([1, 2, 2, 3, 3, 4, 5, 7]))

    def features(self, res):
        for f in res.case.meta["feat"]:
            self.features_seen.add(f)
        return res.case.name

    def oracle(self, res):
        m = res.case.meta
        v = check_expectations(res, m["expect"])
        for pt in m["points"]:
            fn = os.path.join(res.outdir, "snap." + pt["tag"])
            if not os.path.exists(fn):
                continue
            b = open(fn, "rb").read()
            self.count("snapshots_decoded")
            what = "file %s (%s)" % (pt["what"], pt["tag"])
            vs = compare_header(b, pt["model"], res, what)
            v += vs
            if any(x.key.startswith("format|decode") for x in vs):
                continue
            s, hl = cs.decode_header(b)
            if s.numrecs != pt["model"].numrecs:
                v.append(Violation("numrecs|file", "%s: numrecs %d in the header, model %d" % (what, s.numrecs, pt["model"].numrecs), res))
            # data
            for vid, arr in pt["data"].items():
                if vid < len(s.vars):
                    got = cs.read_var(b, s, s.vars[vid], numrecs=arr.shape[0] if s.is_rec(s.vars[vid]) else None)
                    if got.shape != arr.shape or got.astype(cs.BE[s.vars[vid].xtype]).tobytes() != arr.astype(cs.BE[s.vars[vid].xtype]).tobytes():
                        v.append(Violation("data|file", "%s: data of variable %d differs from what was written" % (what, vid), res))
            # layout requests
            fixed = [x for x in s.vars if not s.is_rec(x)]
            recs = s.recvars()
            a = pt["args"]
            ar = (a.get("args") or {})
            hmin, vmin = ar.get("hmin", 0), ar.get("vmin", 0)
            first = fixed[0].begin if fixed else (recs[0].begin if recs else None)
            if first is not None and first - hl < hmin:
                v.append(Violation("layout|h_minfree", "%s: %d free bytes after the header, %d requested" % (what, first - hl, hmin), res))
            if fixed and recs:
                endf = max(x.begin + cs.pad4(s.vlen(x)) for x in fixed)
                if recs[0].begin - endf < vmin:
                    v.append(Violation("layout|v_minfree", "%s: %d free bytes before the record section, %d requested" % (what, recs[0].begin - endf, vmin), res))
            if pt["fresh"]:
                # effective alignments (documented precedence: hints win over ncmpi__enddef arguments; header alignment falls
                # back to nc_var_align_size, then v_align, then -- without fixed variables -- the record alignment, then 512)
                hh = a.get("hints", {})
                hal = hh.get("nc_header_align_size", 0) or hh.get("nc_var_align_size", 0) or ar.get("valign", 0)
                ral = hh.get("nc_record_align_size", 0) or ar.get("ralign", 0)
                if not hal and not fixed:
                    hal = ral
                hal = hal or 512
                hal, ral = cs.pad4(hal), cs.pad4(ral)
                if fixed and hal > 1 and fixed[0].begin % hal:
                    v.append(Violation("layout|h_align", "%s: data section begins at %d, alignment %d requested" % (what, fixed[0].begin, hal), res))
                if recs and ral > 1 and recs[0].begin % ral:
                    v.append(Violation("layout|r_align", "%s: record section begins at %d, alignment %d requested" % (what, recs[0].begin, ral), res))
            # the library's own reports
            if pt["line"] is not None:
                for rank in range(res.case.nprocs):
                    evs = [e for e in res.logs[rank] if e.kind == "S" and e.line == pt["line"]]
                    fe = [e for e in evs if e.op == "file"]
                    if not fe:
                        continue
                    self.count("inquiry_reports_compared")
                    f = fe[0]
                    if f.geti("hsize") != hl:
                        v.append(Violation("report|header_size", "%s: inq_header_size %s, header on disk is %d bytes" % (what, f.kv.get("hsize"), hl), res))
                    if first is not None and f.geti("hextent") != first:
                        v.append(Violation("report|header_extent", "%s: inq_header_extent %s, first variable begins at %d" % (what, f.kv.get("hextent"), first), res))
                    if recs and f.geti("recsize") != s.recsize():
                        v.append(Violation("report|recsize", "%s: inq_recsize %s, specification gives %d" % (what, f.kv.get("recsize"), s.recsize()), res))
                    for e in evs:
                        if e.op == "var" and e.geti("v") < len(s.vars) and e.geti("offset") != s.vars[e.geti("v")].begin:
                            v.append(Violation("report|varoffset", "%s: inq_varoffset(%d) = %s, begin in file %d" % (what, e.geti("v"), e.kv.get("offset"), s.vars[e.geti("v")].begin), res))
                    for e in evs:
                        if e.op == "dim" and pt["model"].dims[e.geti("d")][1] == 0 and e.geti("len") != s.numrecs:
                            v.append(Violation("report|numrecs", "%s: unlimited dimension length %s, header says %d" % (what, e.kv.get("len"), s.numrecs), res))
            # nothing of a clobbered predecessor
            if m["clobber"] and pt.get("final"):
                covered = np.zeros(len(b), dtype=bool)
                covered[:hl] = True
                rs = s.recsize()
                for x in s.vars:
                    if s.is_rec(x):
                        for r in range(s.numrecs):
                            covered[x.begin + r * rs: x.begin + r * rs + s.vlen(x)] = True
                    else:
                        covered[x.begin: x.begin + s.vlen(x)] = True
                arrb = np.frombuffer(b, dtype=np.uint8)
                left = (~covered) & (arrb == PAT)
                # the predecessor was solid PAT; stale copies of moved data in gaps may contain the odd PAT byte by chance,
                # so only a run of 8 counts as a survivor
                run = np.convolve(left.astype(np.int32), np.ones(8, dtype=np.int32), mode="valid") if len(left) >= 8 else np.zeros(0)
                if (run == 8).any():
                    v.append(Violation("clobber|survivor", "%s: %d bytes of the clobbered predecessor (0x%02X) survive outside header and data, first at %d" % (what, int(left.sum()), PAT, int(np.argmax(left))), res))
                self.count("clobber_checks")
        return v
