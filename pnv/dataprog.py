"""dataprog -- builder of data programs: emits script lines for all ranks while running the
reference model inline, so that every line carries the model's prediction (Expect)."""
import random
import numpy as np
from . import cdfspec as cs
from .core import Script, hx, ints
from .model import (MEM, MEM_NAMES, NUMERIC_MEM, XT2MEM, TD, random_td, select, imap_positions, FileM, Expect,
                    safe_range, int_range)

FMT_CMODE = {1: 0, 2: 0x0200, 5: 0x0020}
SENT = 0x5A


def types_for(version):
    return [1, 2, 3, 4, 5, 6] if version < 5 else list(range(1, 12))


def conv_x2m(vals, xt, mt):
    """external values (np array of native external dtype) -> memory dtype; caller guarantees in range"""
    dt = np.dtype(MEM[mt])
    v = np.asarray(vals)
    if dt.kind in "iu" and v.dtype.kind == "f":
        v = np.trunc(v)
    return v.astype(dt)


def fits(vals, mt):
    """can every value be represented in memory type mt (value-preserving up to float truncation)?"""
    dt = np.dtype(MEM[mt])
    v = np.asarray(vals)
    if v.size == 0:
        return True
    if dt.kind in "iu":
        lo, hi = np.iinfo(dt).min, np.iinfo(dt).max
        if v.dtype.kind == "f":
            if not np.all(np.isfinite(v)):
                return False
            t = np.trunc(v)
            return bool(np.all(t >= float(lo)) and np.all(t <= float(hi)) and np.all(np.abs(t) < 2.0 ** 52))
        vi = v.astype(object)
        return all(lo <= int(x) <= hi for x in vi.reshape(-1))
    if dt.itemsize == 4:
        if v.dtype.kind == "f":
            return bool(np.all(np.abs(v) < 3.0e38))
        return True
    return True


class Prog:
    def __init__(self, rng, nprocs, path, version=None, info=None):
        self.rng, self.np, self.path = rng, nprocs, path
        self.s = Script()
        self.expect = {}
        self.version = version or rng.choice([1, 2, 5])
        self.fm = FileM(self.version)
        self.info = info
        self.f = 0
        self.opno = 0
        self.indep = False
        self.defmode = True
        self.feat = set()
        self.nslot = 0
        self.bslot = 0
        self.rslot = 0
        self.nelems_checked = 0
        self.safe_mode = False
        self.fillmode = False       # dataset fill mode (PnetCDF default: NC_NOFILL)
        self.new_vars = []          # variables defined since the last enddef

    # -------------------------------------------------------------- emit helpers
    def emit(self, ranks, op, expect=None, **kw):
        line = self.s.add(ranks, op, **kw)
        if expect is not None:
            rk = range(self.np) if ranks is None or ranks == "*" else ([ranks] if isinstance(ranks, int) else ranks)
            for r in rk:
                self.expect[(r, line)] = expect
        return line

    def all_ok(self, op, **kw):
        return self.emit("*", op, Expect(0, what=op), f=self.f, **kw)

    def tslot(self):
        self.nslot = (self.nslot + 1) % 60
        return self.nslot

    # -------------------------------------------------------------- definitions
    def create(self, cmode_extra=0):
        self.emit("*", "create", Expect(0, what="create"), f=self.f, path="s:" + self.path,
                  cmode=FMT_CMODE[self.version] | cmode_extra, info=self.info or "-")
        self.defmode = True

    def def_dim(self, name, ln):
        self.fm.dims.append([name, ln])
        did = len(self.fm.dims) - 1
        self.emit("*", "def_dim", Expect(0, kv={"id": did}, what="def_dim"), f=self.f, name=hx(name), len=ln)
        return did

    def def_var(self, name, xtype, dimids):
        vid = self.fm.add_var(name, xtype, dimids)
        self.fm.vars[vid].nofill = not self.fillmode
        self.new_vars.append(vid)
        self.emit("*", "def_var", Expect(0, kv={"id": vid}, what="def_var"), f=self.f, name=hx(name), xtype=xtype, dimids=ints(dimids) if dimids else "-", ndims=len(dimids))
        return vid

    def random_schema(self, maxdims=4, maxvars=4, maxlen=5, nrec=None, types=None):
        rng = self.rng
        nd = rng.randint(1, maxdims)
        has_rec = rng.random() < 0.7 if nrec is None else nrec > 0
        dims = []
        if has_rec:
            dims.append(self.def_dim(b"rec", 0))
        for i in range(nd):
            dims.append(self.def_dim(b"d%d" % i, rng.randint(1, maxlen)))
        nv = rng.randint(1, maxvars)
        tps = types or types_for(self.version)
        nrecvars = 0
        for i in range(nv):
            k = rng.choice([0, 1, 1, 2, 2, 3, 4, 5]) if maxdims >= 4 else rng.randint(0, maxdims)
            fixed = [d for d in dims if self.fm.dims[d][1] != 0]
            k = min(k, len(fixed) + (1 if has_rec else 0))
            isrec = has_rec and k > 0 and rng.random() < 0.5
            if nrec is not None and nrec > 0 and nrecvars < nrec and k > 0 and has_rec:
                isrec = True
            ds = []
            if isrec:
                ds.append(dims[0])
                nrecvars += 1
                k -= 1
            ds += [rng.choice(fixed) for _ in range(min(k, 4))] if fixed else []
            self.def_var(b"v%d" % i, rng.choice(tps), ds)
        return dims

    def enddef(self, args=None):
        if args:
            self.all_ok("_enddef", **args)
        else:
            self.all_ok("enddef")
        self.defmode = False
        # fill-mode variables that are new in this enddef are filled: fixed-size ones completely, record
        # variables over the records that exist already
        for vid in self.new_vars:
            v = self.fm.vars[vid]
            if not v.nofill:
                v.data[...] = np.array(v.fill_value()).astype(v.dt)
                v.mask[...] = True
        self.new_vars = []

    def set_fill(self, on):
        self.emit("*", "set_fill", Expect(0, kv={"old": 0 if self.fillmode else 0x100}, what="set_fill"), f=self.f, mode=0 if on else 0x100)
        self.fillmode = on
        for v in self.fm.vars:          # overrides the mode of every variable defined so far
            v.nofill = not on

    def def_var_fill(self, vid, nofill, value=None):
        v = self.fm.vars[vid]
        kw = {}
        if value is not None:
            kw["fill"] = "hex:" + np.array([value]).astype(v.dt).tobytes().hex()
        else:
            kw["fill"] = "-"
        self.emit("*", "def_var_fill", Expect(0, what="def_var_fill"), f=self.f, v=vid, nofill=int(nofill), **kw)
        v.nofill = bool(nofill)
        if value is not None and not nofill:
            v.fillval = np.array([value]).astype(v.dt)[0]
            v.atts = [a for a in v.atts if a.name != b"_FillValue"] + [cs.Att(b"_FillValue", v.xtype, np.array([value]).astype(v.dt) if v.xtype != 2 else bytes([int(value)]))]

    def fill_var_rec(self, vid, rec, expect=0):
        v = self.fm.vars[vid]
        self.emit("*", "fill_var_rec", Expect(expect, what="fill_var_rec v%d rec %d" % (vid, rec)), f=self.f, v=vid, rec=rec)
        if expect == 0:
            if rec + 1 > self.fm.numrecs:
                self.fm.numrecs = rec + 1
                for w in self.fm.vars:
                    w.ensure_recs(self.fm.numrecs)
            v.data[rec] = np.array(v.fill_value()).astype(v.dt)
            v.mask[rec] = True

    def redef(self):
        self.all_ok("redef")
        self.defmode = True

    def begin_indep(self):
        self.all_ok("begin_indep")
        self.indep = True
        # ncmpi_begin_indep_data() neither synchronises the processes nor the file ("If users want a stronger data
        # consistency, ncmpi_sync() should be called following this subroutine"): without this, a rank could start
        # writing independently while another rank is still inside the preceding collective write
        if self.np > 1:
            self.emit("*", "barrier")

    def end_indep(self):
        self.all_ok("end_indep")
        self.indep = False

    def sync3(self):
        self.all_ok("sync3")

    def close(self):
        self.all_ok("close")

    def reopen(self, omode=1, info=None):
        self.emit("*", "open", Expect(0, what="open"), f=self.f, path="s:" + self.path, omode=omode, info=info or self.info or "-")
        self.defmode = False
        self.indep = False
        # the fill mode is not part of the file: a freshly opened file is in NC_NOFILL mode and so is every variable
        self.fillmode = False
        for v in self.fm.vars:
            v.nofill = True
        self.new_vars = []

    # -------------------------------------------------------------- selections
    def shape_now(self, v):
        return self.fm.full_shape(v)

    def random_box(self, shape, allow_stride=True, max_rec=None):
        """random (start,count,stride) inside shape; shape[k]==0 gives count 0"""
        rng = self.rng
        st, ct, sd = [], [], []
        for L in shape:
            if L <= 0:
                st.append(0); ct.append(0); sd.append(1)
                continue
            s = rng.randint(0, L - 1)
            stride = rng.choice([1, 1, 1, 2, 3]) if allow_stride else 1
            maxc = (L - 1 - s) // stride + 1
            c = rng.randint(1, maxc)
            st.append(s); ct.append(c); sd.append(stride)
        return st, ct, sd

    def split_dim(self, L, parts):
        """partition [0,L) into `parts` contiguous (possibly empty) pieces"""
        cuts = sorted(self.rng.randint(0, L) for _ in range(parts - 1))
        b = [0] + cuts + [L]
        return [(b[i], b[i + 1]) for i in range(parts)]

    # -------------------------------------------------------------- memory side
    def mem_for_write(self, v, nelem, count, form, mt, td, imap):
        """returns (vals external np array, buffer bytes, bufcount, nbytes)"""
        rng = self.rng
        xt = v.xtype
        self.opno += 1
        memname = mt if mt != "flex" else (td.prim if td is not None else XT2MEM[xt])
        if xt == cs.NC_CHAR:
            vals = np.array([(self.opno * 37 + j * 7 + 1) % 256 for j in range(nelem)], dtype="u1")
        else:
            lo, hi = safe_range(memname, xt)
            both_float = np.dtype(MEM[memname]).kind == "f" and v.dt.kind == "f"
            if both_float:
                lo, hi = -(1 << 20), 1 << 20
            span = hi - lo + 1
            base = (self.opno * 7919 + rng.randint(0, 1 << 30)) % span
            step = rng.choice([1, 3, 257, 65537, 16777259]) % span or 1
            vals_py = [lo + (base + j * step) % span for j in range(nelem)]
            vals = np.array(vals_py, dtype=object)
            if both_float:
                vals = np.array([float(x) + 0.25 * (j % 4) for j, x in enumerate(vals_py)])
            vals = vals.astype(v.dt)
        mvals = conv_x2m(vals, xt, memname)
        packed = imap_positions(count, imap) if imap is not None else np.arange(nelem, dtype=np.int64)
        npacked = int(packed.max()) + 1 if nelem else 0
        tdd = td or TD.prim_(memname)
        per = len(tdd.tm)
        bufcount = -(-npacked // per) if per else 0
        nbytes = tdd.span(bufcount)
        # gaps are filled with a recognisable pattern (never interpreted by a correct library)
        buf = np.full(nbytes, 0xC7, dtype=np.uint8)
        if nelem:
            pos = tdd.positions(npacked)[packed]
            raw = mvals.tobytes()
            ps = tdd.psize
            rb = np.frombuffer(raw, dtype=np.uint8).reshape(nelem, ps)
            for k in range(ps):
                buf[pos + k] = rb[:, k]
        return vals, buf, bufcount, nbytes

    def expect_for_read(self, v, data, mask, count, mt, td, imap):
        """expected buffer (bytes + mask) for a get of `data` (external values, canonical order)"""
        nelem = data.size
        memname = mt if mt != "flex" else (td.prim if td is not None else XT2MEM[v.xtype])
        packed = imap_positions(count, imap) if imap is not None else np.arange(nelem, dtype=np.int64)
        npacked = int(packed.max()) + 1 if nelem else 0
        tdd = td or TD.prim_(memname)
        per = len(tdd.tm)
        bufcount = -(-npacked // per) if per else 0
        nbytes = tdd.span(bufcount)
        buf = np.full(nbytes, SENT, dtype=np.uint8)
        bmask = np.ones(nbytes, dtype=bool)
        if nelem:
            mvals = conv_x2m(np.where(mask, data, 0).astype(v.dt), v.xtype, memname)
            pos = tdd.positions(npacked)[packed]
            ps = tdd.psize
            rb = np.frombuffer(mvals.tobytes(), dtype=np.uint8).reshape(nelem, ps)
            for k in range(ps):
                buf[pos + k] = rb[:, k]
                bmask[pos + k] = mask
            # flexible API packs/unpacks whole type instances: bytes of a partially used last
            # instance beyond the request are not part of the request and must stay untouched
        return buf, bmask, bufcount, nbytes

    # -------------------------------------------------------------- form selection
    def choose_mem(self, v, for_read_vals=None, allow_flex=True, nelem=1):
        """(mt, td): memory type for typed API, or flex with derived type"""
        rng = self.rng
        xt = v.xtype
        if xt == cs.NC_CHAR:
            cands = ["text"]
        else:
            cands = list(NUMERIC_MEM)
        if for_read_vals is not None:
            vals, mask = for_read_vals
            if not mask.all():
                cands = [XT2MEM[xt]]           # unknown elements: no conversion, no range error possible
            else:
                cands = [m for m in cands if fits(vals, m)] or [XT2MEM[xt]]
        r = rng.random()
        same = XT2MEM[xt]
        if same in cands and rng.random() < 0.4:
            cands = [same]                     # no conversion: the byte-swap-only path (in place or not)
        if allow_flex and r < 0.35:
            prim = rng.choice(cands)
            if rng.random() < 0.15:
                return "flex", None            # MPI_DATATYPE_NULL: buffer is of the external type
            # the flexible API requires bufcount * (elements per buftype instance) == request elements
            for _ in range(6):
                td = random_td(rng, prim, passthrough_safe=(np.dtype(MEM[prim]).itemsize == 1))
                if nelem == 0 or nelem % len(td.tm) == 0:
                    return "flex", td
            base = TD.prim_(prim)
            k = rng.random()
            if nelem <= 1 or k < 0.3:
                return "flex", base.resized(base.extent * rng.randint(1, 3)) if rng.random() < 0.5 else base
            if k < 0.6:
                return "flex", base.vector(nelem, 1, rng.randint(1, 3))
            d = [x for x in range(1, nelem + 1) if nelem % x == 0]
            return "flex", base.contig(rng.choice(d))
        return rng.choice(cands), None

    def access_args(self, form, st, ct, sd, imap):
        kw = {}
        if form in ("var1",):
            kw["start"] = ints(st)
        elif form == "vara":
            kw["start"], kw["count"] = ints(st), ints(ct)
        elif form == "vars":
            kw["start"], kw["count"], kw["stride"] = ints(st), ints(ct), ints(sd) if sd is not None else "-"
        elif form == "varm":
            kw["start"], kw["count"], kw["stride"], kw["imap"] = ints(st), ints(ct), ints(sd) if sd is not None else "-", ints(imap) if imap is not None else "-"
        return kw

    @staticmethod
    def varn_permute(a, vp):
        perm, off, size = vp
        return np.concatenate([a[off[p]:off[p] + size[p]] for p in perm]) if len(a) else a

    @staticmethod
    def varn_unpermute(a, vp):
        perm, off, size = vp
        out = a.copy()
        pos = 0
        for p in perm:
            out[off[p]:off[p] + size[p]] = a[pos:pos + size[p]]
            pos += size[p]
        return out

    def random_imap(self, ct, compact):
        rng = self.rng
        nd = len(ct)
        order = list(range(nd))
        rng.shuffle(order)
        imap = [0] * nd
        stride = 1
        for k in reversed(order):
            imap[k] = stride
            stride *= max(ct[k], 1) + (0 if compact else rng.randint(0, 1))
        return imap

    def pick_form(self, v, st, ct, sd, whole_ok, fam=None):
        """choose an API form able to express the selection.  fam: 'std' (var/var1/vara/vars/varm share one
        collective implementation) or 'varn' -- all ranks of one collective call must use the same family"""
        rng = self.rng
        if fam == "varn":
            return "varn"
        strided = any(x != 1 for x in sd)
        single = all(c == 1 for c in ct) and len(ct) > 0
        forms = ["varm", "vars"]
        if not strided:
            forms += ["vara", "vara", "varn"]
            if single:
                forms += ["var1", "var1"]
            if whole_ok:
                forms += ["var", "var"]
        if v.ndims == 0:
            forms = ["var", "var1", "vara", "vars", "varm", "varn"]
        if fam == "std":
            forms = [f for f in forms if f != "varn"]
        return rng.choice(forms)

    # -------------------------------------------------------------- blocking put/get on one rank
    def one_access(self, kind, rank, vid, st, ct, sd, coll, form=None, mt=None, td=None, extra=None, nb=None, expect_err=0, fam=None):
        """emit one put/get for `rank` (selection must be valid, may be zero-length) and update the model.
        nb: None for blocking, else dict(buf=slot, req=slot) for iput/iget/bput (model update is the caller's job
        when nb and deferred)."""
        rng = self.rng
        v = self.fm.vars[vid]
        shape = self.shape_now(v)
        nelem = int(np.prod(ct)) if len(ct) else 1
        isget = kind in ("get", "iget")
        whole_ok = (list(st) == [0] * len(st) and list(ct) == list(shape) and all(x == 1 for x in sd))
        form = form or self.pick_form(v, st, ct, sd, whole_ok, fam)
        idx = select(st, ct, sd) if v.ndims else ()
        if isget:
            data, mask = self.fm.get(vid, idx) if nelem else (np.zeros(0, v.dt), np.zeros(0, bool))
            data = data.reshape(-1); mask = mask.reshape(-1)
        if mt is None:
            mt, td = self.choose_mem(v, (data, mask) if isget else None, nelem=nelem)
        imap = None
        varn_perm = None
        if form == "varm":
            r = rng.random()
            if r < 0.75 and v.ndims > 0:
                imap = self.random_imap(ct, compact=(mt == "flex"))
        kw = self.access_args(form, st, ct, None if (form in ("vars", "varm") and not any(x != 1 for x in sd) and rng.random() < 0.3) else sd, imap)
        if form == "varn":
            # split the box along its first dimension into 1..3 sub-boxes (canonical order preserved)
            if v.ndims == 0:
                kw["num"] = 1
                kw["starts"], kw["counts"] = "-", "-"
                if rng.random() < 0.5:
                    kw["starts"] = "0"; kw["counts"] = "1" if rng.random() < 0.5 else "-"
            else:
                c0 = ct[0]
                parts = min(max(c0, 1), rng.randint(1, 3))
                cuts = sorted(rng.sample(range(1, c0), parts - 1)) if c0 > 1 and parts > 1 else []
                b = [0] + cuts + [c0]
                starts, counts = [], []
                for i in range(len(b) - 1):
                    starts.append([st[0] + b[i]] + list(st[1:]))
                    counts.append([b[i + 1] - b[i]] + list(ct[1:]))
                if len(starts) > 1:
                    # half of the time list the sub-boxes out of file order (the user buffer follows the list order);
                    # a private generator keeps the main random stream, and so every other case, unchanged
                    prng = random.Random(hash((tuple(st), tuple(ct), vid, len(starts))) & 0xffffffff)
                    if prng.random() < 0.5:
                        perm = list(range(len(starts)))
                        while perm == sorted(perm):
                            prng.shuffle(perm)
                        slab = int(np.prod(ct[1:])) if len(ct) > 1 else 1
                        varn_perm = (perm, [b[i] * slab for i in range(len(starts))], [(b[i + 1] - b[i]) * slab for i in range(len(starts))])
                        starts = [starts[p] for p in perm]
                        counts = [counts[p] for p in perm]
                        if isget:
                            data = self.varn_permute(data, varn_perm)
                            mask = self.varn_permute(mask, varn_perm)
                kw["num"] = len(starts)
                kw["starts"] = ";".join(ints(x) for x in starts)
                allone = all(all(c == 1 for c in cc) for cc in counts)
                kw["counts"] = "-" if (allone and rng.random() < 0.5) else ";".join(ints(x) for x in counts)
        if td is not None:
            td.emit(self.s, rank, self.tslot)
        op = kind
        what = "%s %s v%d st=%s ct=%s sd=%s mt=%s td=%s imap=%s" % (kind, form, vid, st, ct, sd, mt, td.kind if td else None, imap)
        kw.update(f=self.f, v=vid, form=form, mt=mt, coll=int(coll))
        if extra:
            kw.update(extra)
        if nb:
            kw.update({k: x for k, x in nb.items() if not k.startswith("_")})
            kw.pop("coll")
        self.feat.add((kind, form, v.ndims, int(v.isrec), mt if mt in ("flex", "text") else ("conv" if mt != XT2MEM[v.xtype] else "same"),
                       td.kind if td else "-", int(coll), self.np, int(imap is not None)))
        if isget:
            buf, bmask, bufcount, nbytes = self.expect_for_read(v, data, mask, ct, mt, td, imap)
            if mt == "flex":
                kw["bufcount"] = bufcount if td is not None else 0
                kw["buftype"] = td.ref() if td is not None else "null"
            kw["nbytes"] = nbytes
            self.nelems_checked += int(mask.sum())
            ex = Expect(expect_err, buf=buf, mask=bmask, what=what)
            if nb:
                line = self.emit(rank, op, Expect(expect_err, what=what), **kw)
                return line, ex
            return self.emit(rank, op, ex, **kw), None
        vals, buf, bufcount, nbytes = self.mem_for_write(v, nelem, ct, form, mt, td, imap)
        if varn_perm is not None:
            # vals is in user-buffer (list) order: bring it back to the canonical order of idx for the model
            vals = self.varn_unpermute(np.asarray(vals), varn_perm)
        if mt == "flex":
            kw["bufcount"] = bufcount if td is not None else 0
            kw["buftype"] = td.ref() if td is not None else "null"
        kw["data"] = "hex:" + buf.tobytes().hex()
        line = self.emit(rank, op, Expect(expect_err, what=what), **kw)
        if expect_err == 0:
            if nb is None or not nb.get("_defer"):
                self.fm.put(vid, idx, vals)
        return line, (idx, vals)

    # -------------------------------------------------------------- collective patterns
    def decompose(self, v, nparts, unit_stride=False):
        """disjoint per-part boxes (start,count,stride) covering part of the variable; some parts empty"""
        rng = self.rng
        shape = self.shape_now(v)
        out = []
        if v.ndims == 0:
            w = rng.randrange(nparts)
            return [([], [], []) if i == w else None for i in range(nparts)]
        # record variables may grow
        shape = list(shape)
        if v.isrec:
            shape[0] = max(shape[0], 0) + rng.choice([0, 0, 1, 2, 3])
            if shape[0] == 0:
                shape[0] = rng.randint(1, 3)
        k = rng.randrange(v.ndims)
        pieces = self.split_dim(shape[k], nparts)
        for (a, b) in pieces:
            if b <= a or rng.random() < 0.15:
                out.append(None)
                continue
            sub = list(shape)
            st, ct, sd = self.random_box(sub, allow_stride=not unit_stride)
            # restrict dimension k to [a,b)
            stride = 1 if unit_stride else rng.choice([1, 1, 2])
            s = rng.randint(a, b - 1)
            maxc = (b - 1 - s) // stride + 1
            c = rng.randint(1, maxc)
            st[k], ct[k], sd[k] = s, c, stride
            if v.isrec and k != 0 and not unit_stride and shape[0] >= 3 and rng.random() < 0.3:
                # several records with a stride along the record dimension (every 2nd / 3rd record)
                sd[0] = rng.choice([2, 2, 3])
                st[0] = rng.randint(0, min(1, shape[0] - 1))
                ct[0] = rng.randint(2, max(2, (shape[0] - 1 - st[0]) // sd[0] + 1)) if (shape[0] - 1 - st[0]) // sd[0] + 1 >= 2 else 1
                if ct[0] == 1:
                    sd[0] = 1
            out.append((st, ct, sd))
        rng.shuffle(out)
        return out

    def zero_request(self, v):
        shape = self.shape_now(v)
        st = [0 for L in shape]
        return st, [0] * len(shape), [1] * len(shape)

    def coll_put(self, vid):
        v = self.fm.vars[vid]
        fam = "varn" if self.rng.random() < 0.2 else "std"
        if v.ndims == 0:
            # a scalar has no zero-length form within one API family: every rank issues the identical call
            # (same value, so the overlap is deterministic)
            self.one_access("put", "*", vid, [], [], [], True, fam="std")
            return
        boxes = self.decompose(v, self.np, unit_stride=(fam == "varn"))
        for r, bx in enumerate(boxes):
            if bx is None:
                if fam == "varn" and v.ndims > 0:
                    st, ct, sd = self.zero_request(v)
                    self.one_access("put", r, vid, st, ct, sd, True, form="varn")
                elif v.ndims == 0:
                    # the only zero-length request on a scalar is varn with num=0 (routed to the same driver
                    # entry as var/var1/... for scalars, so it matches the other ranks' calls)
                    mt = "text" if v.xtype == 2 else self.rng.choice(NUMERIC_MEM)
                    self.emit(r, "put", Expect(0, what="zero-length scalar put (varn num=0)"), f=self.f, v=vid, form="varn", mt=mt, coll=1,
                              num=0, starts="-", counts="-", data="hex:")
                else:
                    st, ct, sd = self.zero_request(v)
                    form = self.rng.choice(["vara", "vars", "varm"])
                    self.one_access("put", r, vid, st, ct, sd, True, form=form)
            else:
                self.one_access("put", r, vid, bx[0], bx[1], bx[2], True, fam=fam)

    def coll_get(self, vid):
        v = self.fm.vars[vid]
        shape = self.shape_now(v)
        fam = "varn" if self.rng.random() < 0.2 else "std"
        for r in range(self.np):
            if v.ndims and (min(shape) == 0 or self.rng.random() < 0.1):
                st, ct, sd = self.zero_request(v)
                self.one_access("get", r, vid, st, ct, sd, True, form="varn" if fam == "varn" else self.rng.choice(["vara", "vars", "varm"]))
            else:
                st, ct, sd = self.random_box(shape, allow_stride=(fam != "varn"))
                self.one_access("get", r, vid, st, ct, sd, True, fam=fam)

    def indep_ops(self, nops):
        """independent-mode puts/gets by random ranks; record growth is avoided here (C05 covers it)"""
        rng = self.rng
        self.begin_indep()
        written = {}
        for _ in range(nops):
            r = rng.randrange(self.np)
            vid = rng.randrange(len(self.fm.vars))
            v = self.fm.vars[vid]
            shape = self.shape_now(v)
            if v.ndims and min(shape) == 0:
                continue
            st, ct, sd = self.random_box(shape)
            if rng.random() < 0.5:
                # writes of different ranks must not overlap before the next synchronisation
                idx = select(st, ct, sd) if v.ndims else ()
                key = set(zip(*[a.tolist() for a in idx])) if v.ndims else {()}
                clash = any(rr != r and (vid == vv) and (key & kk) for (rr, vv, kk) in written.get("w", []))
                rclash = any(rr != r and (vid == vv) and (key & kk) for (rr, vv, kk) in written.get("r", []))
                if clash or rclash:
                    continue
                written.setdefault("w", []).append((r, vid, key))
                self.one_access("put", r, vid, st, ct, sd, False)
            else:
                idx = select(st, ct, sd) if v.ndims else ()
                key = set(zip(*[a.tolist() for a in idx])) if v.ndims else {()}
                # a rank may only read what it wrote itself or what was synchronised before this section
                if any(rr != r and vid == vv and (key & kk) for (rr, vv, kk) in written.get("w", [])):
                    continue
                written.setdefault("r", []).append((r, vid, key))
                self.one_access("get", r, vid, st, ct, sd, False)
        self.end_indep()

    def read_all(self, ranks=None):
        """every rank reads every variable completely (collective), with the no-conversion memory type"""
        for vid, v in enumerate(self.fm.vars):
            shape = self.shape_now(v)
            for r in range(self.np):
                if v.ndims and min(shape) == 0:
                    st, ct, sd = self.zero_request(v)
                    self.one_access("get", r, vid, st, ct, sd, True, form="vara", mt=XT2MEM[v.xtype])
                else:
                    st = [0] * len(shape)
                    self.one_access("get", r, vid, st, list(shape), [1] * len(shape), True, form=self.rng.choice(["var", "vara"]) if v.ndims else "var", mt=XT2MEM[v.xtype])


def bytes_differ(a, b):
    """element-wise bitwise inequality (NaN-safe, -0.0 != 0.0), same shape as a"""
    a = np.ascontiguousarray(a)
    b = np.ascontiguousarray(b).astype(a.dtype, copy=False)
    if a.size == 0:
        return np.zeros(a.shape, bool)
    isz = a.dtype.itemsize
    x = np.frombuffer(a.tobytes(), dtype=np.uint8).reshape(-1, isz)
    y = np.frombuffer(b.tobytes(), dtype=np.uint8).reshape(-1, isz)
    return (x != y).any(axis=1).reshape(a.shape)


def check_final_file(filebytes, fm, res, what="final file"):
    """decode the raw file independently and compare header + every known element with the model"""
    from .core import Violation
    out = []
    try:
        s, hl = cs.decode_header(filebytes, strict=True)
    except cs.FormatError as ex:
        return [Violation("format|decode", "%s rejected by the specification decoder: %s" % (what, ex), res)]
    for p in cs.check_layout(s, hl, len(filebytes)):
        out.append(Violation("format|layout|" + p.split(" ")[0], "%s: %s" % (what, p), res))
    if s.version != fm.version:
        out.append(Violation("format|version", "%s: version %d, expected %d" % (what, s.version, fm.version), res))
    if [tuple(d) for d in s.dims] != [tuple(d) for d in fm.dims]:
        out.append(Violation("format|dims", "%s: dims %r, model %r" % (what, s.dims, fm.dims), res))
    if s.numrecs != fm.numrecs:
        out.append(Violation("numrecs|file", "%s: numrecs in header %d, model %d" % (what, s.numrecs, fm.numrecs), res))
    if len(s.vars) != len(fm.vars):
        out.append(Violation("format|nvars", "%s: %d variables, model %d" % (what, len(s.vars), len(fm.vars)), res))
        return out
    for i, (sv, mv) in enumerate(zip(s.vars, fm.vars)):
        if sv.name != mv.name or sv.xtype != mv.xtype or list(sv.dimids) != list(mv.dimids):
            out.append(Violation("format|var", "%s: variable %d is %r/%d/%r, model %r/%d/%r" % (what, i, sv.name, sv.xtype, sv.dimids, mv.name, mv.xtype, mv.dimids), res))
            continue
        nr = min(s.numrecs, fm.numrecs)
        arr = cs.read_var(filebytes, s, sv, numrecs=nr)
        md, mm = (mv.data[:nr], mv.mask[:nr]) if mv.isrec else (mv.data, mv.mask)
        if arr.shape != md.shape:
            out.append(Violation("format|shape", "%s: variable %d shape %s, model %s" % (what, i, arr.shape, md.shape), res))
            continue
        bad = bytes_differ(arr, md) & mm
        if bad.any():
            w = np.argwhere(bad)[0].tolist() if arr.ndim else []
            out.append(Violation("data|file", "%s: variable %d element %s is %r in the file, model %r (%d elements differ)" % (
                what, i, w, arr[tuple(w)], md[tuple(w)], int(bad.sum())), res))
    return out


# ====================================================================== nonblocking requests
class NBMixin:
    """nonblocking requests on top of Prog: pending-request model (reqmodel)"""

    def nb_init(self):
        self.pending = {r: [] for r in range(self.np)}   # rank -> list of request dicts (posting order)
        self.pend_put = {}      # vid -> set of element index tuples with a pending put (any rank)
        self.pend_get = {}      # vid -> set of element tuples with a pending get
        self.abuf = {r: None for r in range(self.np)}    # attached buffer size per rank (None = not attached)
        self.abuf_used = {r: 0 for r in range(self.np)}
        self.abuf_ent = {r: [] for r in range(self.np)}  # allocation entries in posting order: [size, request]
        self.nb_posted = 0

    @staticmethod
    def _keys(idx, ndims):
        if ndims == 0:
            return {()}
        return set(zip(*[a.tolist() for a in idx])) if len(idx) and idx[0].size else set()

    def region_free(self, vid, keys, for_put):
        if keys & self.pend_put.get(vid, set()):
            return False
        if for_put and (keys & self.pend_get.get(vid, set())):
            return False
        return True

    def post(self, kind, rank, vid, st, ct, sd, form=None, fam=None):
        """iput / iget / bput of a valid selection by `rank`; returns request dict or None if region busy"""
        v = self.fm.vars[vid]
        idx = select(st, ct, sd) if v.ndims else ()
        keys = self._keys(idx, v.ndims)
        isput = kind in ("iput", "bput")
        if not self.region_free(vid, keys, isput):
            return None
        if kind == "iget" and not getattr(self, "allow_get_overlap", False):
            # overlapping pending gets of one rank are exercised only in dedicated cases (known finding:
            # only the first of overlapping reads completed by one wait receives the data)
            if any(q["kind"] == "iget" and q["vid"] == vid and (q["keys"] & keys) for q in self.pending[rank]):
                return None
        nelem = int(np.prod(ct)) if len(ct) else 1
        if kind == "bput":
            need = nelem * cs.XSZ[v.xtype]
            if self.abuf[rank] is None or self.abuf[rank] - self.abuf_tail(rank) < need:
                return None
        self.bslot = (self.bslot + 1) % 4000
        self.rslot = (self.rslot + 1) % 4000
        nb = {"buf": self.bslot, "req": self.rslot, "_defer": True}
        extra = {}
        if kind == "bput" and self.rng.random() < 0.7:
            extra["scribble"] = 1
        nbk = dict(nb)
        nbk.pop("_defer")
        nbk.update(extra)
        nbk["_defer"] = True
        line, payload = self.one_access(kind, rank, vid, st, ct, sd, False, form=form, fam=fam, nb=nbk)
        rq = {"kind": kind, "rank": rank, "vid": vid, "keys": keys, "rslot": self.rslot, "bslot": self.bslot, "line": line,
              "scribbled": bool(extra.get("scribble")), "nbytes_x": nelem * cs.XSZ[v.xtype], "isrec": v.isrec,
              "maxrec": (int(idx[0].max()) + 1 if v.isrec and v.ndims and idx[0].size else 0)}
        if isput:
            rq["idx"], rq["vals"] = payload
            self.pend_put.setdefault(vid, set()).update(keys)
            if kind == "bput":
                self.abuf_used[rank] += rq["nbytes_x"]
                self.abuf_ent[rank].append([rq["nbytes_x"], rq])
        else:
            rq["expect"] = payload
            self.pend_get.setdefault(vid, set()).update(keys)
        self.pending[rank].append(rq)
        self.nb_posted += 1
        self.feat.add(("post", kind, v.isrec, self.np))
        return rq

    def _retire(self, rq, completed):
        vid = rq["vid"]
        if rq["kind"] in ("iput", "bput"):
            self.pend_put[vid] -= rq["keys"]
            if completed:
                self.fm.put(vid, rq["idx"], rq["vals"])
            if rq["kind"] == "bput":
                self.abuf_used[rq["rank"]] -= rq["nbytes_x"]
                ent = self.abuf_ent[rq["rank"]]
                for e_ in ent:
                    if e_[1] is rq:
                        e_[1] = None
                while ent and ent[-1][1] is None:
                    ent.pop()
        else:
            # overlapping pending gets are allowed: rebuild the set from the remaining ones
            self.pend_get[vid] = set()
            for r in self.pending.values():
                for q in r:
                    if q is not rq and q["kind"] == "iget" and q["vid"] == vid:
                        self.pend_get[vid] |= q["keys"]

    def abuf_tail(self, rank):
        """usage as the library's bump allocator counts it: everything up to the last still-pending entry
        (space of completed requests in the middle is not reclaimed -- known finding C13)"""
        return sum(e_[0] for e_ in self.abuf_ent[rank])

    def complete(self, op, coll, choice):
        """op: 'wait' or 'cancel'.  choice: {rank: spec} where spec is 'all' | 'allput' | 'allget' | 'none' |
        list of request dicts (any order) possibly with None entries (NC_REQ_NULL).
        Ranks not in choice do not call (independent mode only)."""
        after = []
        for rank in sorted(choice):
            spec = choice[rank]
            pend = self.pending[rank]
            if spec == "all":
                done = list(pend)
            elif spec == "allput":
                done = [q for q in pend if q["kind"] != "iget"]
            elif spec == "allget":
                done = [q for q in pend if q["kind"] == "iget"]
            elif spec == "none":
                done = []
            else:
                done = [q for q in spec if q is not None]
            if isinstance(spec, str):
                kv = {}
                arg = spec
            else:
                arg = ",".join("null" if q is None else str(q["rslot"]) for q in spec) or "none"
                kv = {"ids": ",".join("-1" for _ in spec), "st": ",".join("0" for _ in spec)} if spec else {}
            wex = Expect(0, kv=kv, what="%s %s coll=%d" % (op, arg if len(arg) < 60 else arg[:60], coll))
            self.emit(rank, op, wex, f=self.f, coll=int(coll), reqs=arg)
            for q in done:
                pend.remove(q)
            after.append((rank, done, wex))
            self.feat.add((op, "spec:" + (spec if isinstance(spec, str) else ("subset" if len(done) < len(pend) + len(done) else "every")),
                           int(coll), int(any(q is None for q in spec)) if not isinstance(spec, str) else 0, self.np))
        # model update after every rank's line has been emitted (collective: same call)
        for rank, done, wex in after:
            for q in done:
                self._retire(q, op == "wait")
        for rank, done, wex in after:
            gets = [q for q in done if q["kind"] == "iget"]
            for a_ in gets:
                for b_ in gets:
                    if a_ is not b_ and a_["vid"] == b_["vid"] and (a_["keys"] & b_["keys"]):
                        a_["expect"].tag = "iget-overlap-same-wait"
                        # the unfilled internal buffer is then converted: statuses may report NC_ERANGE
                        if op == "wait":
                            wex.err = None
                            wex.kv.pop("st", None)
        for rank, done, wex in after:
            for q in done:
                if q["kind"] == "iget":
                    if op == "wait":
                        q["expect"].err = None
                        self.emit(rank, "dumpbuf", q["expect"], b=q["bslot"])
                    else:
                        self.emit(rank, "dumpbuf", None, b=q["bslot"])
                else:
                    self.emit(rank, "chkbuf", Expect(None, kv={"bufsame": -1 if q["scribbled"] else 1, "guard": 1}, what="write buffer after " + op), b=q["bslot"])
            self.emit(rank, "inq", Expect(0, kv={"val": len(self.pending[rank])}, what="inq_nreqs after " + op), f=self.f, what="nreqs")
            if self.abuf[rank] is not None and getattr(self, "check_abuf", False):
                ex = Expect(0, kv={"val": self.abuf_used[rank], "val2": self.abuf[rank]}, what="buffer usage after " + op)
                ex.alt_kv = {"val": (self.abuf_tail(rank), "abuf|usage|tail-only-reclaim")}
                self.emit(rank, "inq", ex, f=self.f, what="buffer")

    def attach(self, rank, size):
        self.emit(rank, "attach", Expect(0, what="attach"), f=self.f, size=size)
        self.abuf[rank] = size
        self.abuf_used[rank] = 0
        self.abuf_ent[rank] = []

    def detach(self, rank):
        self.emit(rank, "detach", Expect(0, what="detach"), f=self.f)
        self.abuf[rank] = None


class NBProg(NBMixin, Prog):
    def __init__(self, *a, **kw):
        Prog.__init__(self, *a, **kw)
        self.nb_init()
