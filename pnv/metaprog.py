"""metaprog -- sequential reference model for metadata / namespace operations (metamodel) and a builder that
emits the operations together with the model's predictions; sweeps are compared with model snapshots."""
import copy, unicodedata
import numpy as np
from . import cdfspec as cs
from .core import Script, hx, Violation
from .model import Expect, MEM, XT2MEM, NUMERIC_MEM, safe_range, E
from .dataprog import FMT_CMODE, types_for


def nfc(b):
    try:
        return unicodedata.normalize("NFC", b.decode("utf-8")).encode("utf-8")
    except UnicodeDecodeError:
        return b


ASCII_FIRST = "abcdefghijklmnopqrstuvwxyzABCDEFGHIJKLMNOPQRSTUVWXYZ0123456789_"
ASCII_REST = ASCII_FIRST + " !#$%&()*+,-.:;<=>?@[]^{|}~"
UTF = ["é", "ü", "ß", "Ω", "日本", "λ", "ñ", "é", "ä", "ô", "å", "Å", "𝛼"]


def random_name(rng, maxlen=12):
    r = rng.random()
    if r < 0.03:
        n = rng.choice([200, 255, 256])
        return ("L" + "".join(rng.choice("abcdefghij") for _ in range(n - 1))).encode()
    s = rng.choice(ASCII_FIRST) if rng.random() < 0.8 else rng.choice(UTF)
    for _ in range(rng.randint(0, maxlen)):
        s += rng.choice(ASCII_REST) if rng.random() < 0.85 else rng.choice(UTF)
    s = s.rstrip(" ")
    return s.encode("utf-8")


class MetaProg:
    def __init__(self, rng, nprocs, path, version, hints=None, fslot=0):
        self.rng, self.np, self.path, self.version = rng, nprocs, path, version
        self.s = Script()
        self.expect = {}
        self.sweeps = {}        # line -> (schema snapshot, fslot)
        self.snaps = {}         # tag -> schema snapshot
        self.m = cs.Schema(version)
        self.f = fslot
        self.defmode = True
        self.hints = hints
        self.nsnap = 0
        self.feat = set()

    def emit(self, ranks, op, expect=None, **kw):
        line = self.s.add(ranks, op, **kw)
        if expect is not None:
            for r in range(self.np):
                self.expect[(r, line)] = expect
        return line

    def create(self):
        self.emit("*", "create", Expect(0), f=self.f, path="s:" + self.path, cmode=FMT_CMODE[self.version], info=self.hints or "-")

    # ---- lookups on the model (names are compared after NFC normalisation)
    def dim_id(self, name):
        n = nfc(name)
        for i, d in enumerate(self.m.dims):
            if d[0] == n:
                return i
        return -1

    def var_id(self, name):
        n = nfc(name)
        for i, v in enumerate(self.m.vars):
            if v.name == n:
                return i
        return -1

    def attlist(self, vid):
        return self.m.gatts if vid == -1 else self.m.vars[vid].atts

    def att_id(self, vid, name):
        n = nfc(name)
        for i, a in enumerate(self.attlist(vid)):
            if a.name == n:
                return i
        return -1

    # ---- operations
    def def_dim(self, name, ln):
        err = 0
        if not self.defmode:
            err = E["ENOTINDEFINE"]
        elif self.dim_id(name) >= 0 and ln == 0 and self.m.unlimdim() >= 0:
            err = {E["ENAMEINUSE"], E["EUNLIMIT"]}      # both apply, no documented precedence
        elif self.dim_id(name) >= 0:
            err = E["ENAMEINUSE"]
        elif ln == 0 and self.m.unlimdim() >= 0:
            err = E["EUNLIMIT"]
        kv = {"id": len(self.m.dims)} if err == 0 else {}
        self.emit("*", "def_dim", Expect(err, kv=kv, what="def_dim %r" % name), f=self.f, name=hx(name), len=ln)
        if err == 0:
            self.m.dims.append([nfc(name), ln])
        self.feat.add(("def_dim", str(err)))
        return err

    def def_var(self, name, xtype, dimids):
        err = 0
        if not self.defmode:
            err = E["ENOTINDEFINE"]
        elif self.var_id(name) >= 0:
            err = E["ENAMEINUSE"]
        elif any(d < 0 or d >= len(self.m.dims) for d in dimids):
            err = E["EBADDIM"]
        elif any(self.m.dims[d][1] == 0 for d in dimids[1:]):
            err = E["EUNLIMPOS"]
        kv = {"id": len(self.m.vars)} if err == 0 else {}
        self.emit("*", "def_var", Expect(err, kv=kv, what="def_var %r" % name), f=self.f, name=hx(name), xtype=xtype,
                  dimids=",".join(map(str, dimids)) if dimids else "-", ndims=len(dimids))
        if err == 0:
            self.m.vars.append(cs.Var(nfc(name), xtype, dimids, []))
        self.feat.add(("def_var", err))
        return err

    def put_att(self, vid, name, xtype, n, mt=None):
        rng = self.rng
        lst = self.attlist(vid)
        old = self.att_id(vid, name)
        if xtype == cs.NC_CHAR:
            mt = "text"
            vals = bytes(rng.randint(0, 255) for _ in range(n))
            raw = vals
            memraw = vals
        else:
            mt = mt or rng.choice(NUMERIC_MEM)
            lo, hi = safe_range(mt, xtype)
            pv = [rng.choice([lo, hi, 0, rng.randint(lo, hi)]) for _ in range(n)]
            xv = np.array(pv, dtype=object).astype(cs.NATIVE[xtype]) if n else np.zeros(0, cs.NATIVE[xtype])
            vals = xv
            memraw = np.array(pv, dtype=object).astype(MEM[mt]).tobytes() if n else b""
        err = 0
        newsz = n * cs.XSZ[xtype]
        if not self.defmode:
            if old < 0:
                err = E["ENOTINDEFINE"]
            else:
                o = lst[old]
                # what counts is the space the values occupy in the header (padded to 4 bytes)
                if cs.pad4(newsz) > cs.pad4(o.nelems * cs.XSZ[o.xtype]):
                    err = E["ENOTINDEFINE"]
        self.emit("*", "put_att", Expect(err, what="put_att v%d %r type %d n %d (%s)" % (vid, name, xtype, n, "overwrite" if old >= 0 else "new")),
                  f=self.f, v=vid, name=hx(name), xtype=xtype, mt=mt, n=n, data="hex:" + memraw.hex())
        if err == 0:
            a = cs.Att(nfc(name), xtype, vals)
            if old >= 0:
                lst[old] = a
            else:
                lst.append(a)
        self.feat.add(("put_att", xtype, mt, "data" if not self.defmode else "def", "ow" if old >= 0 else "new", err))
        return err

    def rename(self, kind, idx, newname, vid=None):
        """kind: dim | var | att"""
        err = 0
        nn = nfc(newname)
        if kind == "dim":
            cur = self.m.dims[idx][0]
            clash = self.dim_id(newname)
        elif kind == "var":
            cur = self.m.vars[idx].name
            clash = self.var_id(newname)
        else:
            cur = self.attlist(vid)[idx].name
            clash = self.att_id(vid, newname)
        if clash >= 0 and clash != idx:
            err = E["ENAMEINUSE"]
        elif clash == idx and False:
            err = 0
        elif not self.defmode and len(nn) > len(cur):
            err = E["ENOTINDEFINE"]
        if clash == idx:
            # renaming to the current name: accepted by some paths, NC_ENAMEINUSE by others -> not generated
            return None
        if kind == "dim":
            self.emit("*", "rename_dim", Expect(err, what="rename_dim %d -> %r" % (idx, newname)), f=self.f, d=idx, name=hx(newname))
            if err == 0:
                self.m.dims[idx][0] = nn
        elif kind == "var":
            self.emit("*", "rename_var", Expect(err, what="rename_var %d -> %r" % (idx, newname)), f=self.f, v=idx, name=hx(newname))
            if err == 0:
                self.m.vars[idx].name = nn
        else:
            self.emit("*", "rename_att", Expect(err, what="rename_att v%d %r -> %r" % (vid, cur, newname)), f=self.f, v=vid, name=hx(cur), newname=hx(newname))
            if err == 0:
                self.attlist(vid)[idx].name = nn
        self.feat.add(("rename", kind, "data" if not self.defmode else "def", err))
        return err

    def del_att(self, vid, name):
        i = self.att_id(vid, name)
        err = 0
        if not self.defmode:
            err = E["ENOTINDEFINE"]
        elif i < 0:
            err = E["ENOTATT"]
        self.emit("*", "del_att", Expect(err, what="del_att v%d %r" % (vid, name)), f=self.f, v=vid, name=hx(name))
        if err == 0:
            del self.attlist(vid)[i]
        self.feat.add(("del_att", err))
        return err

    def copy_att_within(self, vin, name, vout):
        i = self.att_id(vin, name)
        if i < 0:
            self.emit("*", "copy_att", Expect(E["ENOTATT"], what="copy missing att"), fin=self.f, fout=self.f, vin=vin, vout=vout, name=hx(name))
            return
        src = self.attlist(vin)[i]
        dst = self.attlist(vout)
        j = self.att_id(vout, name)
        err = 0
        if vin == vout:
            err = 0
        elif not self.defmode:
            if j < 0 or cs.pad4(src.nelems * cs.XSZ[src.xtype]) > cs.pad4(dst[j].nelems * cs.XSZ[dst[j].xtype]):
                err = E["ENOTINDEFINE"]
        self.emit("*", "copy_att", Expect(err, what="copy_att v%d %r -> v%d" % (vin, name, vout)), fin=self.f, fout=self.f, vin=vin, vout=vout, name=hx(name))
        if err == 0 and vin != vout:
            a = cs.Att(src.name, src.xtype, copy.deepcopy(src.values))
            if j >= 0:
                dst[j] = a
            else:
                dst.append(a)
        self.feat.add(("copy_att", "data" if not self.defmode else "def", err))

    def enddef(self):
        self.emit("*", "enddef", Expect(0, what="enddef"), f=self.f)
        self.defmode = False

    def redef(self):
        self.emit("*", "redef", Expect(0, what="redef"), f=self.f)
        self.defmode = True

    def sweep(self):
        line = self.emit("*", "sweep", None, f=self.f)
        self.sweeps[line] = copy.deepcopy(self.m)

    def snapshot(self):
        self.nsnap += 1
        tag = "m%d" % self.nsnap
        self.emit("*", "barrier")
        self.emit(0, "snapshot", None, path="s:" + self.path, tag=tag)
        self.snaps[tag] = copy.deepcopy(self.m)
        self.emit("*", "barrier")


def compare_sweep(res, rank, line, model, what="sweep"):
    """compare the S records of one sweep with a model snapshot"""
    out = []
    evs = [e for e in res.logs[rank] if e.kind == "S" and e.line == line]
    if not evs:
        return out

    def bad(key, msg):
        out.append(Violation("sweep|" + key, "%s at line %d rank %d: %s" % (what, line, rank, msg), res))
    fe = [e for e in evs if e.op == "file"]
    if not fe:
        return out
    f = fe[0]
    if any(x != "0" for x in f.kv.get("err", "").split(",")):
        bad("file-err", "inquiry error codes %s" % f.kv.get("err"))
    want = {"ndims": len(model.dims), "nvars": len(model.vars), "ngatts": len(model.gatts), "unlim": model.unlimdim(),
            "format": model.version, "nrecvars": len(model.recvars()), "nfixvars": len(model.vars) - len(model.recvars())}
    for k, w in want.items():
        if f.geti(k) != w:
            bad("file|" + k, "%s=%s, model says %s" % (k, f.kv.get(k), w))
    dims = {e.geti("d"): e for e in evs if e.op == "dim"}
    for i, (nm, ln) in enumerate(model.dims):
        e = dims.get(i)
        if e is None:
            bad("dim-missing", "dimension %d missing" % i)
            continue
        if e.kv.get("err") != "0,0,0,0":
            bad("dim-err", "dimension %d inquiry errors %s (name %r)" % (i, e.kv.get("err"), nm))
        if e.kv.get("name") != nm.hex():
            bad("dim-name", "dimension %d name %r, model %r" % (i, bytes.fromhex(e.kv.get("name", "")), nm))
        if ln != 0 and e.geti("len") != ln:
            bad("dim-len", "dimension %d length %s, model %d" % (i, e.kv.get("len"), ln))
        if e.geti("idbyname") != i:
            bad("dim-byname", "inq_dimid(%r) = %s, id is %d" % (nm, e.kv.get("idbyname"), i))
        if e.kv.get("same") != "1":
            bad("dim-inconsistent", "inq_dim and inq_dimname/inq_dimlen disagree for dimension %d" % i)
    vars_ = {e.geti("v"): e for e in evs if e.op == "var"}
    for i, v in enumerate(model.vars):
        e = vars_.get(i)
        if e is None or "name" not in e.kv:
            bad("var-missing", "variable %d missing" % i)
            continue
        errs = e.kv.get("err", "").split(",")
        if any(x != "0" for x in errs[:3] + errs[4:]):
            bad("var-err", "variable %d inquiry errors %s" % (i, e.kv.get("err")))
        if e.kv.get("name") != v.name.hex():
            bad("var-name", "variable %d name %r, model %r" % (i, bytes.fromhex(e.kv.get("name", "")), v.name))
        if e.geti("xtype") != v.xtype:
            bad("var-type", "variable %d type %s, model %d" % (i, e.kv.get("xtype"), v.xtype))
        got_d = [] if e.kv.get("dimids") in ("-", None, "") else [int(x) for x in e.kv["dimids"].split(",")]
        if got_d != list(v.dimids):
            bad("var-dimids", "variable %d dimids %s, model %s" % (i, got_d, v.dimids))
        if e.geti("natts") != len(v.atts):
            bad("var-natts", "variable %d has %s attributes, model %d" % (i, e.kv.get("natts"), len(v.atts)))
        if e.geti("idbyname") != i:
            bad("var-byname", "inq_varid(%r) = %s, id is %d" % (v.name, e.kv.get("idbyname"), i))
        if e.kv.get("same") != "1":
            bad("var-inconsistent", "inq_var and inq_varname/vartype/vardimid/varnatts disagree for variable %d" % i)
    atts = {(e.geti("v"), e.geti("a")): e for e in evs if e.op == "att"}
    for vid in [-1] + list(range(len(model.vars))):
        lst = model.gatts if vid == -1 else model.vars[vid].atts
        for j, a in enumerate(lst):
            e = atts.get((vid, j))
            if e is None or "name" not in e.kv:
                bad("att-missing", "attribute %d of variable %d missing (model %r)" % (j, vid, a.name))
                continue
            if e.kv.get("err") != "0,0,0":
                bad("att-err", "attribute %r of variable %d: inquiry errors %s" % (a.name, vid, e.kv.get("err")))
            if e.kv.get("name") != a.name.hex():
                bad("att-name", "attribute %d of variable %d is %r, model %r" % (j, vid, bytes.fromhex(e.kv.get("name", "")), a.name))
                continue
            if e.geti("xtype") != a.xtype or e.geti("len") != a.nelems:
                bad("att-shape", "attribute %r of variable %d: type %s len %s, model %d/%d" % (a.name, vid, e.kv.get("xtype"), e.kv.get("len"), a.xtype, a.nelems))
                continue
            if e.geti("idbyname") != j:
                bad("att-byname", "inq_attid(%r) of variable %d = %s, position is %d" % (a.name, vid, e.kv.get("idbyname"), j))
            want_raw = bytes(a.values) if a.xtype == cs.NC_CHAR else np.asarray(a.values).astype(cs.NATIVE[a.xtype]).tobytes()
            if e.kv.get("geterr") != "0" or e.hexb() != want_raw:
                bad("att-value", "attribute %r of variable %d: value %s (err %s), model %s" % (a.name, vid, (e.kv.get("hex") or "")[:40], e.kv.get("geterr"), want_raw.hex()[:40]))
            if e.kv.get("guard") != "1":
                bad("att-guard", "get_att wrote outside its buffer")
        ends = [e for e in evs if e.op == "attend" and e.geti("v") == vid]
        if ends and ends[0].geti("err") != E["ENOTATT"]:
            bad("att-end", "inq_attname(%d) of variable %d returned %s, expected NC_ENOTATT" % (len(lst), vid, ends[0].kv.get("err")))
    return out


def compare_header(filebytes, model, res, what):
    """decode a snapshot with the specification decoder and compare its metadata with a model snapshot"""
    out = []
    try:
        s, hl = cs.decode_header(filebytes, strict=True)
    except cs.FormatError as ex:
        return [Violation("format|decode", "%s rejected by the specification decoder: %s" % (what, ex), res)]
    for p in cs.check_layout(s, hl, len(filebytes)):
        out.append(Violation("format|layout|" + p.split(" ")[0], "%s: %s" % (what, p), res))
    if s.version != model.version:
        out.append(Violation("format|version", "%s: version %d, model %d" % (what, s.version, model.version), res))
    if [tuple(d) for d in s.dims] != [tuple(d) for d in model.dims]:
        out.append(Violation("header|dims", "%s: dims %r, model %r" % (what, s.dims, model.dims), res))
    if [a.key() for a in s.gatts] != [a.key() for a in model.gatts]:
        out.append(Violation("header|gatts", "%s: global attributes %r, model %r" % (what, s.gatts, model.gatts), res))
    if len(s.vars) != len(model.vars):
        out.append(Violation("header|nvars", "%s: %d variables, model %d" % (what, len(s.vars), len(model.vars)), res))
        return out
    for i, (a, b) in enumerate(zip(s.vars, model.vars)):
        if (a.name, a.xtype, list(a.dimids)) != (b.name, b.xtype, list(b.dimids)):
            out.append(Violation("header|var", "%s: variable %d is %r/%d/%s, model %r/%d/%s" % (what, i, a.name, a.xtype, a.dimids, b.name, b.xtype, b.dimids), res))
        if [x.key() for x in a.atts] != [x.key() for x in b.atts]:
            out.append(Violation("header|vatts", "%s: attributes of variable %d %r, model %r" % (what, i, a.atts, b.atts), res))
    return out
