"""core -- the check harness: generate -> run -> oracle -> known-findings routing ->
evidence -> exit code.  Verdicts are three-valued: violated (exit 1 + VIOLATION lines),
held on what was observed (exit 0), inconclusive / harness failure (exit 2)."""
import os, sys, json, time, random, traceback, shutil, re, pickle
from . import runner

VERIF = runner.VERIF


class Violation:
    def __init__(self, key, msg, res=None, prop=None):
        self.key, self.msg, self.res, self.prop = key, msg, res, prop


def load_known():
    p = os.path.join(VERIF, "known_findings.json")
    try:
        return json.load(open(p))
    except FileNotFoundError:
        return {"known": [], "fixed": []}


def match_known(known, prop, key):
    for k in known.get("known", []):
        if k.get("property") not in (prop, "*"):
            continue
        if "key" in k and k["key"] == key:
            return k
        if "key_re" in k and re.fullmatch(k["key_re"], key):
            return k
    return None


class Check:
    """subclass and define: id, level, rule, generate(tier, rng) -> iterable[Case],
    oracle(res) -> list[Violation]; optionally features(res) -> hashable (distinctness),
    min_events, finish(results) for cross-case oracles."""
    id = "C00"
    level = "exploration"
    rule = ""
    variant = "san"
    assumptions = []
    exhaustive = False
    case_timeout = int(os.environ.get("VERIF_CASE_TIMEOUT", 120))

    def __init__(self):
        self.stats = {}
        self.samples = []
        self.features_seen = set()
        self.inconclusive = []

    def count(self, k, n=1):
        self.stats[k] = self.stats.get(k, 0) + n

    # ---- generic monitors applied to every case of every check (C19/C17/C13 side channels)
    def generic_oracle(self, res):
        v = []
        for txt in res.san:
            self.count("sanitizer_reports")
            k = runner.san_key(txt, res.stderr_full)
            if k.endswith("pncdrv.c") or k.endswith("shim.c"):
                # undefined behaviour in the driver itself is a defect of this harness, never an observation about the library
                raise runner.HarnessError("sanitizer report inside the verification driver (case %s): %s" % (res.case.name, txt[:600]))
            v.append(Violation("crash|" + k, "sanitizer report:\n" + txt[:3000], res))
        oc = res.open_calls()
        if res.timed_out:
            where = ["r%d:%s@%d" % (i, e.op, e.line) if e else "r%d:done" % i for i, e in enumerate(oc)]
            # logical witness: ranks stuck in different ops / different collectives
            sig = []
            for i, e in enumerate(oc):
                if e is None:
                    sig.append("done")
                else:
                    ms = [m.op for m in res.mpi_events(i, e.line)]
                    sig.append("%s[%s]" % (e.op, ms[-1] if ms else ""))
            stuck_ops = sorted(set(e.op for e in oc if e))
            v.append(Violation("hang|" + "+".join(stuck_ops) + "|" + self.hang_site(res, oc), "case did not terminate (re-run twice): " + " ".join(where) + " last-mpi: " + " ".join(sig), res))
            return v
        if not res.finished() and not res.san:
            sigs = [e.op if e else "done" for e in oc]
            if "pncdrv[" in res.stderr or any(e.kind == "X" for evs in res.logs for e in evs):
                raise runner.HarnessError("script error in case %s: %s" % (res.case.name, res.stderr[-800:]))
            if not res.logs_nonempty() and "or execute an executable" in (res.stderr_full or ""):
                raise runner.HarnessError("driver binary could not be launched (case %s): is another build replacing it?" % res.case.name)
            v.append(Violation("abort|" + "+".join(sorted(set(s for s in sigs if s != "done"))) + "|" + self.abort_site(res), "abnormal termination rc=%s open=%s stderr=%s" % (res.rc, sigs, res.stderr[-1500:]), res))
        # C17 side monitor: a program that declares all of its files closed must leave nothing behind
        for rank, evs in enumerate(res.logs):
            for e in evs:
                if e.kind == "R" and e.op == "balance" and e.kv.get("final") == "1":
                    self.count("final_balances")
                    if e.geti("malloc") not in (0, None) and e.kv.get("mallocerr") == "0":
                        v.append(Violation("leak|heap", "ncmpi_inq_malloc_size() = %s after the last close (rank %d)" % (e.kv.get("malloc"), rank), res))
                    for k in ("types", "comms", "infos", "files"):
                        if e.geti(k) not in (0, None):
                            v.append(Violation("leak|mpi-" + k, "%s library-created MPI %s still alive after the last close on rank %d (created %s)" % (
                                e.kv.get(k), k, rank, e.kv.get("tot")), res))
        # structural invariants of the library's in-memory state, walked by the hook after every script op
        for rank, evs in enumerate(res.logs):
            for e in evs:
                if e.kind == "W":
                    m = e.kv.get("msg", "")
                    key = m.split(":")[0]
                    self.count("invariant_reports")
                    v.append(Violation("invariant|" + key, "internal invariant broken after %s at line %d rank %d (file slot %s): %s" % (
                        e.kv.get("after"), e.line, rank, e.kv.get("f"), m.replace("_", " ")), res))
                    break
                elif e.kind == "E":
                    self.count("invariant_walks", int(e.kv.get("walks", 0) or 0))
                    if int(e.kv.get("shortw", 0) or 0):
                        self.count("short_writes_injected", int(e.kv.get("shortw")))
        for rank, evs in enumerate(res.logs):
            for e in evs:
                if e.kind == "R":
                    if e.kv.get("guard") == "0":
                        v.append(Violation("guard|" + e.op + "|" + e.kv.get("api", ""), "guard zone around user buffer damaged at line %d rank %d" % (e.line, rank), res))
                    if e.kv.get("bufsame") == "0":
                        v.append(Violation("bufchanged|" + e.op + "|" + e.kv.get("api", ""), "caller's write buffer changed by %s at line %d rank %d" % (e.kv.get("api", e.op), e.line, rank), res))
        return v

    def hang_site(self, res, oc):
        for i, e in enumerate(oc):
            if e is not None:
                return str(e.kv.get("api", e.op))
        return "?"

    def abort_site(self, res):
        m = re.search(r"(\w+\.c):\d+", res.stderr or "")
        m2 = re.search(r"Assertion `([^']+)'", res.stderr or "")
        sig = re.search(r"Signal: (\w+ \w+)|signal (\d+)", res.stderr or "")
        return (m2.group(1)[:40] if m2 else "") + (sig.group(0) if sig else "")

    def features(self, res):
        return res.case.meta.get("features", res.case.name)

    def finish(self, results):
        return []

    def oracle(self, res):
        return []

    # ---- main
    def run(self, tier, seed, replay=None):
        t0 = time.time()
        known = load_known()
        rng = random.Random((seed, self.id, tier).__repr__())
        bld = runner.build(self.variant)
        workdir = os.path.join(runner.RUNROOT, "%s-%s-%d" % (self.id, tier, os.getpid()))
        shutil.rmtree(workdir, ignore_errors=True)
        os.makedirs(workdir)
        self.workdir = workdir
        self.bld = bld
        viols = []
        nrun = 0
        if not replay:
            shutil.rmtree(os.path.join(os.environ.get("VERIF_REPLAY_DIR") or os.path.join(VERIF, "replays"), self.id), ignore_errors=True)
        try:
            if replay:
                cases = [load_replay(replay)]
            else:
                cases = list(self.generate(tier, rng))
            for c in cases:
                if c.timeout == 120:
                    c.timeout = self.case_timeout
                elif "VERIF_CASE_TIMEOUT" in os.environ:
                    c.timeout = min(c.timeout, self.case_timeout)
            B = 64
            all_results_meta = []
            for i in range(0, len(cases), B):
                batch = cases[i:i + B]
                results = runner.run_cases(batch, bld, workdir)
                for res in results:
                    nrun += 1
                    vs = self.generic_oracle(res)
                    if not res.timed_out and (res.finished() or res.san):
                        try:
                            vs += self.oracle(res)
                        except runner.HarnessError:
                            raise
                        except Exception as ex:
                            raise runner.HarnessError("oracle crashed on %s: %s\n%s" % (res.case.name, ex, traceback.format_exc()))
                    for k in ("api_calls", "mpi_events"):
                        pass
                    self.count("api_calls", sum(1 for evs in res.logs for e in evs if e.kind == "R"))
                    self.count("mpi_events_observed", sum(1 for evs in res.logs for e in evs if e.kind == "M"))
                    self.features_seen.add(self.features(res))
                    if len(self.samples) < 3 and not vs:
                        self.samples.append({"case": res.case.name, "nprocs": res.case.nprocs, "env": res.case.env,
                                             "script": [l if len(l) < 400 else l[:400] + "..." for l in res.case.lines[:60]]})
                    for x in vs:
                        x.res = x.res or res
                    viols += vs
                    if not vs:
                        shutil.rmtree(res.outdir, ignore_errors=True)
                    else:
                        self.keep_artifacts(res)
                viols += self.finish_batch(results) or []
            viols += self.finish(None) or []
        except runner.HarnessError as ex:
            print("HARNESS-ERROR %s: %s" % (self.id, ex), file=sys.stderr)
            self.write_evidence(tier, seed, nrun, 0, time.time() - t0, note="harness error: %s" % str(ex)[:300])
            return 2
        return self.conclude(tier, seed, viols, nrun, t0, known, workdir)

    def conclude(self, tier, seed, viols, nrun, t0, known, workdir):
        # ---- route through known findings
        new, seen_known = {}, {}
        for x in viols:
            prop = x.prop or self.id
            k = match_known(known, prop, x.key)
            if k is not None:
                seen_known.setdefault((prop, x.key), (k, x))
            else:
                new.setdefault((prop, x.key), x)
        printed = set()
        for (prop, key), (k, x) in seen_known.items():
            if (prop, k.get("what")) in printed:
                continue
            printed.add((prop, k.get("what")))
            print("KNOWN-FINDING: property=%s %s [key=%s]" % (prop, k.get("what", ""), key))
            if os.environ.get("VERIF_SHOW_KNOWN"):
                print("  " + x.msg[:3000].replace("\n", "\n  "))
        for (prop, key), x in new.items():
            path = runner.save_replay(self.id, x.res, x.msg) if x.res is not None else getattr(x, "replay_path", "-")
            if x.res is not None:
                with open(path[:-7] + ".json", "w") as f:
                    json.dump({"nprocs": x.res.case.nprocs, "env": x.res.case.env, "key": key, "why": x.msg[:4000], "timeout": x.res.case.timeout}, f, indent=1)
                try:
                    with open(path[:-7] + ".meta.pkl", "wb") as f:
                        pickle.dump(x.res.case.meta, f)
                except Exception:
                    pass
            print("VIOLATION property=%s replay=%s" % (prop, path))
            print("  key=%s\n  %s" % (key, x.msg[:1500].replace("\n", "\n  ")))
        wall = time.time() - t0
        if nrun == 0 or self.stats.get("api_calls", 0) < getattr(self, "min_events", 1):
            print("INCONCLUSIVE %s: observed nothing (cases=%d)" % (self.id, nrun), file=sys.stderr)
            self.write_evidence(tier, seed, nrun, len(new), wall, note="inconclusive: observed nothing")
            return 2
        self.write_evidence(tier, seed, nrun, len(new), wall, known=sorted(set(k for (_, k) in seen_known)))
        if not new or not os.environ.get("VERIF_KEEP"):
            shutil.rmtree(workdir, ignore_errors=True)      # replay scripts are kept under replays/, the run directory is not
        print("%s %s: cases=%d distinct=%d api_calls=%d violations=%d known=%d inconclusive=%d wall=%.1fs" % (
            self.id, tier, nrun, len(self.features_seen), self.stats.get("api_calls", 0), len(new), len(seen_known), len(self.inconclusive), wall))
        return 1 if new else 0

    def finish_batch(self, results):
        return []

    def keep_artifacts(self, res):
        pass

    def write_evidence(self, tier, seed, nrun, nviol, wall, note=None, known=None):
        evdir = os.environ.get("VERIF_EVIDENCE_DIR") or os.path.join(VERIF, "evidence")   # (tools/tryseed diverts it)
        os.makedirs(evdir, exist_ok=True)
        cov = {"evaluations": nrun, "distinct_nontrivial": len(self.features_seen), "rule": self.rule,
               "samples": self.samples or [{"note": "no clean sample recorded"}], "exhaustive": bool(self.exhaustive),
               "observed": self.stats, "inconclusive_subgoals": self.inconclusive}
        if known:
            cov["known_findings_seen"] = known
        if note:
            cov["note"] = note
        ev = {"property_id": self.id, "tier": tier, "seed": seed, "level": self.level, "coverage": cov,
              "assumptions": list(self.assumptions), "wall_s": round(wall, 2), "violations": nviol}
        with open(os.path.join(evdir, self.id + ".json"), "w") as f:
            json.dump(ev, f, indent=1, default=str)


def load_replay(path):
    meta = {}
    try:
        meta = json.load(open(path[:-7] + ".json")) if path.endswith(".script") else {}
    except (FileNotFoundError, ValueError):
        pass
    lines = open(path).read().split("\n")
    if lines and lines[-1] == "":
        lines.pop()
    cmeta = {}
    try:
        cmeta = pickle.load(open(path[:-7] + ".meta.pkl", "rb"))
    except Exception:
        pass
    return runner.Case("replay", int(meta.get("nprocs", 1)), lines, env=meta.get("env", {}), meta=cmeta, timeout=meta.get("timeout", 120))


# ------------------------------------------------------------------ script helpers
def hx(b):
    return "h:" + bytes(b).hex()


def ints(l):
    return ",".join(str(int(x)) for x in l) if l is not None and len(l) else "-"


class Script:
    """accumulates script lines; line numbers are 1-based op ids"""

    def __init__(self):
        self.lines = []

    def add(self, ranks, op, **kw):
        rk = "*" if ranks is None or ranks == "*" else ",".join(str(r) for r in ranks) if not isinstance(ranks, int) else str(ranks)
        parts = [rk, op]
        for k, v in kw.items():
            if v is None:
                continue
            if k.endswith("_"):
                k = k[:-1]
            parts.append("%s=%s" % (k, v))
        self.lines.append(" ".join(parts))
        return len(self.lines)
